#!/bin/bash
# Confirm a seeded change delivered by a sub-agent: demo passes on the clean tree, fails with the patch, baseline tests
# still pass with the patch. Usage: confirm_seeded.sh <dir with patch.diff demo.py meta.json>
set -u
D=$(readlink -f "$1"); N=$(basename "$D"); W=/tmp/seedchk/$N
rm -rf "$W"; mkdir -p /tmp/seedchk
git -C /repo worktree add -q --detach "$W" HEAD || exit 2
cd "$W"
timeout 900 /venv/bin/python "$D/demo.py" "$W" > /tmp/seedchk/$N.clean.log 2>&1; RC_CLEAN=$?
git apply "$D/patch.diff" || { echo "$N: patch does not apply"; git -C /repo worktree remove --force "$W"; exit 2; }
timeout 900 /venv/bin/python "$D/demo.py" "$W" > /tmp/seedchk/$N.patched.log 2>&1; RC_PATCH=$?
timeout 1500 /venv/bin/python -m pytest -q -p no:cacheprovider $(tr '\n' ' ' < /tmp/mut/baseline_tests.txt) > /tmp/seedchk/$N.tests.log 2>&1; RC_TESTS=$?
PASSED=$(grep -oE "[0-9]+ passed" /tmp/seedchk/$N.tests.log | tail -1)
cd /; git -C /repo worktree remove --force "$W"
echo "$N: demo clean exit=$RC_CLEAN patched exit=$RC_PATCH tests exit=$RC_TESTS ($PASSED)"
