#!/bin/bash
# Like run_seeded.sh, but leaves /repo alone: the patch is applied to a scratch worktree of /repo HEAD under /tmp and the
# checks are pointed at it with DSIM_REPO (used while a soak / sweep is reading /repo). Usage: <dir> <prop> [<prop> ...]
D=$(readlink -f "$1"); shift
N=$(basename "$D"); W=/tmp/seedscr/$N
rm -rf "$W"; mkdir -p /tmp/seedscr
git -C /repo worktree add -q --detach "$W" HEAD || exit 2
( cd "$W" && git apply "$D/patch.diff" ) || { echo "$N: patch does not apply"; git -C /repo worktree remove --force "$W"; exit 2; }
cd /verif
for P in "$@"; do
  OUT=$(DSIM_REPO=$W DSIM_CACHE_ROOT=/tmp/seedscr/.nbcache DSIM_EVIDENCE_DIR=/tmp/seed_ev DSIM_REPLAY_DIR=/tmp/seed_rp/$N timeout 2400 ./check $P --tier quick 2>&1 | grep -v "^KNOWN-FINDING\|WARNING conda")
  RC=$(echo "$OUT" | grep -c "^VIOLATION property=$P")
  echo "== $N vs $P: $( [ $RC -gt 0 ] && echo CAUGHT || echo MISSED )"
  echo "$OUT" | grep -A1 "^VIOLATION" | head -4 | cut -c1-330
  echo "$OUT" | tail -1 | cut -c1-200
done
git -C /repo worktree remove --force "$W"
