#!/bin/bash
# Apply a seeded change to /repo, run the given checks (quick tier), undo. Usage: run_seeded.sh <dir> <prop> [<prop> ...]
D=$(readlink -f "$1"); shift
N=$(basename "$D")
cd /verif
git -C /repo diff --quiet || { echo "/repo is not clean"; exit 2; }
git -C /repo apply "$D/patch.diff" || { echo "$N: patch does not apply"; exit 2; }
trap 'git -C /repo checkout -- .' EXIT
for P in "$@"; do
  OUT=$(DSIM_EVIDENCE_DIR=/tmp/seed_ev DSIM_REPLAY_DIR=/tmp/seed_rp/$N timeout 2400 ./check $P --tier quick 2>&1 | grep -v "^KNOWN-FINDING\|WARNING conda")
  RC=$(echo "$OUT" | grep -c "^VIOLATION property=$P")
  echo "== $N vs $P: $( [ $RC -gt 0 ] && echo CAUGHT || echo MISSED )"
  echo "$OUT" | grep -A1 "^VIOLATION" | head -4 | cut -c1-330
  echo "$OUT" | tail -1 | cut -c1-200
done
