"""World K: colliders with history. Plan generator, reference model and oracles for
C03 (support mappings, history independence), C14 (update_pose == fresh collider) and C19 (termination within the
support-evaluation budget, finite results, allowed exceptions)."""
import math

import numpy as np

from .. import geom

WORLD = "K"
MAX_FLOAT = float(np.finfo(float).max)
SMOOTH = ("sphere", "ellipsoid", "capsule", "cylinder", "cone", "disk", "ellipse")
ALL_KINDS = ["sphere", "ellipsoid", "capsule", "cylinder", "cone", "box", "disk", "ellipse", "mesh", "hull"]
PRIMITIVE_KINDS = ("sphere", "capsule", "box", "ellipsoid", "cylinder")
FNS_ALL = ["jolt_distance", "jolt_intersection", "original_distance", "libccd_intersection", "nesterov_distance",
           "nesterov_distance_acc", "nesterov_intersection", "mpr_intersection", "mpr_penetration", "epa"]
FNS_PRIM = ["primitives_distance", "primitives_intersection", "primitives_distance_acc"]
FNS_MORE = ["jolt_distance_noclip", "jolt_iterations", "original_iterations", "nesterov_iterations", "epa_big"]
BOOL_FNS = ("jolt_intersection", "libccd_intersection", "nesterov_intersection", "primitives_intersection",
            "mpr_intersection")


# ------------------------------------------------------------------------------------------------ model
class Model:
    def __init__(self):
        self.slots = {}

    def apply(self, op, obs=None):
        """Advance; returns False when the executor skips the op. `obs` (if given) decides whether a pose change took
        effect (update_pose that raised leaves the pose unchanged)."""
        k = op["op"]
        if k == "new":
            self.slots[op["s"]] = {"spec": op["spec"], "pose": op["pose"], "poses": 0, "stack": op.get("stack")}
            return True
        if k == "narrow":
            return op["a"] in self.slots and op["b"] in self.slots
        if op.get("s") not in self.slots:
            return False
        if k == "pose":
            e = self.slots[op["s"]]
            took = (obs is None and e["spec"]["kind"] != "hull") or (obs is not None and obs.get("st") == "ok")
            if took:
                e["pose"] = op["pose"]
                e["poses"] += 1
            if (op.get("how") or "").startswith("pstack") and not e.get("stack"):
                return False  # the op that created the stack was removed by the minimiser
        return True


# -------------------------------------------------------------------------------------------- generator
def _hull_triangles(V):
    """Outward-oriented triangles of the convex hull of V (scipy/qhull; independent of distance3d.mesh)."""
    from scipy.spatial import ConvexHull
    V = np.asarray(V, dtype=float)
    ch = ConvexHull(V)
    tris = ch.simplices.copy()
    c = V[ch.vertices].mean(axis=0)
    for i, (a, b, cc) in enumerate(tris):
        n = np.cross(V[b] - V[a], V[cc] - V[a])
        if n @ (V[a] - c) < 0:
            tris[i] = [a, cc, b]
    return ch.vertices, tris


def gen_mesh(rng, tier, scale):
    style = rng.choice(["gauss", "gauss", "sphere", "box", "prism", "lattice"])
    if rng.chance(0.02 if tier == "quick" else 0.06):
        return gen_ring_mesh(rng, tier, scale)
    nmax = 60 if tier == "quick" else 200
    if style == "gauss":
        n = rng.randint(4, nmax)
        V = np.array([rng.vec() for _ in range(n)]) * np.array([rng.choice([1.0, 1.0, 0.3, 0.05]) for _ in range(3)])
    elif style == "sphere":
        n = rng.randint(6, nmax)
        V = np.array([rng.unit() for _ in range(n)])
    elif style == "box":
        s = [rng.choice([0.5, 1.0, 2.0]) for _ in range(3)]
        V = np.array([[sx * s[0], sy * s[1], sz * s[2]] for sx in (-.5, .5) for sy in (-.5, .5) for sz in (-.5, .5)])
    elif style == "prism":
        m = rng.randint(3, 12)
        V = np.array([[math.cos(2 * math.pi * i / m), math.sin(2 * math.pi * i / m), z]
                      for i in range(m) for z in (-0.5, 0.5)])
    else:
        pts = {(rng.randint(-2, 2), rng.randint(-2, 2), rng.randint(-2, 2)) for _ in range(rng.randint(6, 30))}
        V = np.array(sorted(pts), dtype=float)
    V = V * scale
    try:
        keep, tris = _hull_triangles(V)
    except Exception:
        V = np.array([rng.vec() for _ in range(8)]) * scale
        keep, tris = _hull_triangles(V)
    if len(keep) < len(V) and rng.chance(0.4):
        # the documented route make_convex_mesh(point cloud): interior points stay in the vertex array, the triangles
        # reference hull vertices only (vertex 0 may be interior)
        V2 = V
        T2 = [[int(i) for i in t] for t in tris]
    else:
        remap = {int(old): new for new, old in enumerate(keep)}
        V2 = V[keep]
        T2 = [[remap[int(i)] for i in t] for t in tris]
    if rng.chance(0.3):  # the constructor asks for index triples only: winding need not be consistent
        mode = rng.choice(["all", "some", "alternate"])
        for i in range(len(T2)):
            if mode == "all" or (mode == "some" and rng.chance(0.4)) or (mode == "alternate" and i % 2):
                T2[i] = [T2[i][0], T2[i][2], T2[i][1]]
    if rng.chance(0.5):  # vertex order is arbitrary: the cached start vertex (min index) then varies
        perm = list(range(len(V2)))
        rng.shuffle(perm)
        inv = {old: new for new, old in enumerate(perm)}
        V2 = V2[perm]
        T2 = [[inv[i] for i in t] for t in T2]
    spec = {"kind": "mesh", "vertices": (V2 + 0.0).tolist(), "triangles": T2}
    if rng.chance(0.3):
        spec["tri32"] = True  # scipy's ConvexHull.simplices (what make_convex_mesh returns) are int32
    return spec


def gen_ring_mesh(rng, tier, scale):
    """A finely tessellated prism whose caps are triangulated as strips: a convex mesh with a large graph diameter
    (hundreds of edges between far-apart vertices), so that hill climbing needs many steps."""
    m = rng.randint(150, 500) if tier == "quick" else rng.randint(300, 2500)
    ang = [2 * math.pi * i / m for i in range(m)]
    r = scale
    h = 0.5 * scale * rng.choice([0.1, 1.0])
    V = [[r * math.cos(a), r * math.sin(a), -h] for a in ang] + [[r * math.cos(a), r * math.sin(a), h] for a in ang]
    T = []
    for i in range(m):  # side quads
        j = (i + 1) % m
        T.append([i, j, m + j])
        T.append([i, m + j, m + i])
    # caps as zig-zag strips: 0, 1, m-1, 2, m-2, ...
    order = [0]
    lo, hi = 1, m - 1
    while lo <= hi:
        order.append(lo)
        lo += 1
        if lo <= hi:
            order.append(hi)
            hi -= 1
    for k in range(len(order) - 2):
        a, b, c = order[k], order[k + 1], order[k + 2]
        T.append([a, c, b] if k % 2 == 0 else [a, b, c])          # bottom cap (normal -z)
        T.append([m + a, m + b, m + c] if k % 2 == 0 else [m + a, m + c, m + b])  # top cap
    return {"kind": "mesh", "vertices": (np.array(V) + 0.0).tolist(), "triangles": T}


def gen_spec(rng, cfg, tier, kind=None):
    kind = kind or rng.choice(cfg["kinds"])
    needle = cfg.get("needles") and rng.chance(0.3)

    def size():
        return rng.size()

    def pair():
        if needle:
            a = rng.choice([1e-2, 2e-2, 0.1])
            b = rng.choice([10.0, 50.0, 100.0])
            return (a, b) if rng.chance(0.5) else (b, a)
        s = size()
        return s, s * rng.choice([1.0, 0.5, 2.0, 0.1, 10.0]) if rng.chance(0.7) else size()

    def clamp(x):
        return float(min(100.0, max(0.01, x)))

    if kind == "sphere":
        spec = {"kind": kind, "radius": size()}
    elif kind == "ellipsoid":
        a, b = pair()
        spec = {"kind": kind, "radii": [clamp(a), clamp(b), clamp(rng.choice([a, b, size()]))]}
    elif kind == "capsule":
        a, b = pair()
        spec = {"kind": kind, "radius": clamp(a), "height": clamp(b)}
    elif kind == "cylinder":
        a, b = pair()
        spec = {"kind": kind, "radius": clamp(a), "length": clamp(b)}
    elif kind == "cone":
        a, b = pair()
        spec = {"kind": kind, "radius": clamp(a), "height": clamp(b)}
    elif kind == "box":
        a, b = pair()
        spec = {"kind": kind, "size": [clamp(a), clamp(b), clamp(rng.choice([a, b, size()]))]}
    elif kind == "disk":
        spec = {"kind": kind, "radius": size()}
    elif kind == "ellipse":
        a, b = pair()
        spec = {"kind": kind, "radii": [clamp(a), clamp(b)]}
    elif kind == "mesh":
        spec = gen_mesh(rng, tier, rng.choice([1.0, 1.0, 0.1, 10.0, size()]))
    elif kind == "hull":
        scale = rng.choice([1.0, 1.0, 0.1, 10.0, size()])
        c = rng.random()
        if cfg.get("degenerate") and c < 0.35:
            d = rng.choice(["point", "segment", "planar", "dup"])
            if d == "point":
                V = [[0.0, 0.0, 0.0]]
            elif d == "segment":
                V = [[0.0, 0.0, -0.5], [0.0, 0.0, 0.5]]
            elif d == "planar":
                V = [[rng.gauss(0, 1), rng.gauss(0, 1), 0.0] for _ in range(rng.randint(3, 8))]
            else:
                base = [rng.vec() for _ in range(4)]
                V = base + [list(base[0]), list(base[1])]
        else:
            V = [rng.vec() for _ in range(rng.randint(4, 30))]
        spec = {"kind": kind, "vertices": (np.array(V) * scale + 0.0).tolist()}
    else:
        raise ValueError(kind)
    if cfg.get("margins") and rng.chance(0.2):
        spec["margin"] = rng.choice([0.01, 0.1, 0.5, 1.0])
    return spec


def place_hull(spec, pose):
    """ConvexHullVertices has no pose: bake the pose into the vertices, model pose = identity."""
    if spec["kind"] != "hull":
        return spec, pose
    T = np.array(pose)
    V = np.array(spec["vertices"]) @ T[:3, :3].T + T[:3, 3]
    s = dict(spec)
    s["vertices"] = (V + 0.0).tolist()
    return s, np.eye(4).tolist()


def gen_dir(rng, entry):
    spec, pose = entry["spec"], np.array(entry["pose"])
    R = pose[:3, :3]
    c = rng.random()
    if c < 0.35:
        d = np.array(rng.vec())
    elif c < 0.45:
        d = np.zeros(3)
        d[rng.randrange(3)] = rng.choice([-1.0, 1.0])
    elif c < 0.6:  # +- local axis (parallel / orthogonal to the shape's axes)
        d = R[:, rng.randrange(3)] * rng.choice([-1.0, 1.0])
    elif c < 0.75:  # one or two exactly-zero local components
        ld = np.array(rng.vec())
        z = rng.sample(range(3), rng.choice([1, 2]))
        ld[z] = 0.0
        d = R @ ld if rng.chance(0.5) else ld
    elif c < 0.85 and spec["kind"] in ("mesh", "hull", "box"):
        if spec["kind"] == "mesh":  # face normal or edge-orthogonal direction: ties between vertices
            V = np.array(spec["vertices"])
            t = rng.choice(spec["triangles"])
            n = np.cross(V[t[1]] - V[t[0]], V[t[2]] - V[t[0]])
            if rng.chance(0.3):
                e = V[t[1]] - V[t[0]]
                n = np.cross(e, np.array(rng.vec()))
            if rng.chance(0.3):  # near tie: a face normal tilted by a tiny angle
                n = n / max(1e-300, float(np.linalg.norm(n))) + np.array(rng.vec()) * rng.logu(1e-9, 1e-3)
            d = R @ n
        else:
            d = R @ np.array([rng.choice([-1.0, 0.0, 1.0]) for _ in range(3)])
    elif c < 0.9 and spec["kind"] == "cone":  # the cone's critical direction: apex and rim tie
        a = rng.uniform(0, 2 * math.pi)
        ld = np.array([spec["height"] * math.cos(a), spec["height"] * math.sin(a), spec["radius"]])
        d = R @ ld
    else:
        d = np.array(rng.vec())
    n = float(np.linalg.norm(d))
    if n == 0.0:
        d = np.array([0.0, 0.0, 1.0])
        n = 1.0
    mag = rng.choice([1.0, 1.0, None, None, "keep", "almost"])
    if mag is None:
        # GJK hands over its current closest-point vector as search direction: close to contact it is very short
        d = d / n * (rng.logu(1e-8, 1e4) if rng.chance(0.7) else rng.logu(1e-14, 1e-8))
    elif mag == 1.0:
        d = d / n
    elif mag == "almost":  # nearly, but not exactly, unit length
        d = d / n * (1.0 + rng.choice([-1.0, 1.0]) * rng.logu(1e-12, 1e-4))
    return (d + 0.0).tolist()


def gen_relative_pose(rng, entry_a, spec_b, cfg):
    """Pose for a second collider placed relative to the first: far / near / touching-ish / overlapping / nested /
    coincident / lattice."""
    pa = geom.position(entry_a["spec"], entry_a["pose"])
    ra = 0.5 * geom.feature_scale(entry_a["spec"])
    rb = 0.5 * geom.feature_scale(spec_b)
    T = np.eye(4)
    T[:3, :3] = rng.rot()
    c = rng.random()
    if c < 0.12:
        T[:3, 3] = pa  # coincident centres (nested / identical)
        if rng.chance(0.5):
            T[:3, :3] = np.array(entry_a["pose"])[:3, :3]
    elif c < 0.3 and cfg.get("lattice"):
        T[:3, :3] = rng.axis_rot()
        T[:3, 3] = np.round(pa) + np.array([float(rng.randint(-2, 2)) for _ in range(3)]) * rng.choice([0.5, 1.0, ra + rb])
    else:
        u = np.array(rng.unit())
        if rng.chance(0.3):
            u = np.zeros(3)
            u[rng.randrange(3)] = rng.choice([-1.0, 1.0])
        f = rng.choice([0.0, 0.2, 0.5, 0.9, 1.0, 1.0, 1.05, 1.5, 3.0, 10.0])
        if rng.chance(0.15):  # hair's-breadth gap / overlap (exact for spheres, whose extent is the radius)
            f = 1.0 + rng.choice([-1.0, 1.0]) * rng.logu(1e-13, 1e-3)
        T[:3, 3] = pa + u * (ra + rb) * f
    T[:3, 3] = np.clip(T[:3, 3], -570.0, 570.0)
    return (T + 0.0).tolist()


def fns_for(rng, cfg, ea, eb):
    fns = list(cfg["fns"])
    prim_ok = all(e["spec"]["kind"] in PRIMITIVE_KINDS and not e["spec"].get("margin") for e in (ea, eb))
    if prim_ok and cfg.get("prim"):
        fns = fns + FNS_PRIM
    return rng.choice(fns)


def gen(rng, tier="quick", prop="C03"):
    cfg = {
        "kinds": sorted(rng.sample(ALL_KINDS, rng.choice([1, 2, 3, 5, 10]))),
        "margins": rng.chance(0.4),
        "needles": prop == "C19" and rng.chance(0.4),
        "degenerate": prop == "C19" and rng.chance(0.6),
        "lattice": rng.chance(0.5),
        "prim": rng.chance(0.7),
        "fns": sorted(rng.sample(FNS_ALL + FNS_MORE, rng.choice([1, 2, 4, len(FNS_ALL) + len(FNS_MORE)]))),
        "faults": sorted(f for f in ("cache-warm", "pose-delivery", "dup", "self-pair") if rng.chance(0.6)),
        "support_budget": 1000,
    }
    if prop in ("C03", "C14") and rng.chance(0.5) and "mesh" not in cfg["kinds"]:
        cfg["kinds"] = sorted(cfg["kinds"] + ["mesh"])
    faults = set(cfg["faults"])
    model = Model()
    ops = []

    def emit(op):
        ops.append(op)
        model.apply(op)

    nslots = rng.choice([1, 2, 2, 3, 4])
    for s in range(nslots):
        spec = gen_spec(rng, cfg, tier)
        if s > 0 and rng.chance(0.8):
            pose = gen_relative_pose(rng, model.slots[rng.randrange(s)], spec, cfg)
        else:
            pose = rng.pose()
        spec, pose = place_hull(spec, pose)
        op = {"op": "new", "s": s, "spec": spec, "pose": pose}
        if "pose-delivery" in faults and spec["kind"] != "hull":
            c = rng.random()
            if c < 0.3:
                # the caller keeps a stack of poses; the collider is constructed from item 0 of it
                op["stack"] = [pose] + [rng.pose() if rng.chance(0.5) else gen_relative_pose(
                    rng, {"spec": spec, "pose": pose}, spec, cfg) for _ in range(rng.randint(1, 3))]
            elif c < 0.45 and s > 0:
                o = rng.randrange(s)
                if model.slots[o]["spec"]["kind"] != "hull" and "stack" not in ops[[i for i, x in enumerate(ops) if x["op"] == "new" and x["s"] == o][0]]:
                    # two colliders constructed from the very same pose array object
                    op["pose"] = ops[[i for i, x in enumerate(ops) if x["op"] == "new" and x["s"] == o][0]]["pose"]
                    op["share"] = o
        emit(op)

    def gen_pose_op():
        s = rng.randrange(nslots)
        e = model.slots[s]
        others = [x for x in range(nslots) if x != s]
        if others and rng.chance(0.6):
            pose = gen_relative_pose(rng, model.slots[rng.choice(others)], e["spec"], cfg)
        else:
            pose = rng.pose()
        if rng.chance(0.15) and e["spec"]["kind"] != "hull":  # joint-like motion: spin about the collider's local z
            a = rng.uniform(-math.pi, math.pi)
            Rz = np.array([[math.cos(a), -math.sin(a), 0.0, 0.0], [math.sin(a), math.cos(a), 0.0, 0.0],
                           [0.0, 0.0, 1.0, 0.0], [0.0, 0.0, 0.0, 1.0]])
            P = np.array(e["pose"]) @ Rz
            if rng.chance(0.5):
                P[:3, 3] = np.array(pose)[:3, 3]
            pose = (P + 0.0).tolist()
        op = {"op": "pose", "s": s, "pose": pose}
        if e.get("stack") and rng.chance(0.5):
            k = rng.randrange(len(e["stack"]))
            op["pose"] = e["stack"][k]
            op["how"] = "pstack:%d" % k
            if "dup" in faults and rng.chance(0.3):
                op["dup"] = True
            emit(op)
            return
        if "pose-delivery" in faults and rng.chance(0.6):
            if rng.chance(0.5):
                n = rng.randint(1, 5)
                op["how"] = "stack:%d:%d" % (rng.randrange(n), n)
            else:
                op["how"] = "reuse"  # the caller refills this collider's slot of its pose stack in place
        if "dup" in faults and rng.chance(0.3):
            op["dup"] = True
        emit(op)

    def gen_warm(s=None):
        s = rng.randrange(nslots) if s is None else s
        e = model.slots[s]
        emit({"op": "warm", "s": s, "dirs": [gen_dir(rng, e) for _ in range(rng.randint(1, 12))]})

    used_dirs = {}

    def gen_sup(twin):
        s = rng.randrange(nslots)
        e = model.slots[s]
        if "cache-warm" in faults and e["spec"]["kind"] == "mesh" and rng.chance(0.5):
            gen_warm(s)
        if used_dirs.get(s) and rng.chance(0.25):
            d = rng.choice(used_dirs[s])  # a direction this collider has answered before (possibly at another pose)
        else:
            d = gen_dir(rng, e)
            used_dirs.setdefault(s, []).append(d)
        emit({"op": "sup", "s": s, "d": d, "twin": twin})
        if rng.chance(0.15):
            emit({"op": "sup", "s": s, "d": d, "twin": twin})  # same direction again
        if rng.chance(0.1):
            emit({"op": "sup", "s": s, "d": (-np.array(d) + 0.0).tolist(), "twin": twin})

    def gen_simple(twin, kinds=("aabb", "center", "first", "c2o")):
        emit({"op": rng.choice(kinds), "s": rng.randrange(nslots), "twin": twin})

    def gen_narrow(twin):
        a = rng.randrange(nslots)
        b = rng.randrange(nslots)
        if a == b and not ("self-pair" in faults and rng.chance(0.5)) and nslots > 1:
            b = (a + 1 + rng.randrange(nslots - 1)) % nslots
        fn = fns_for(rng, cfg, model.slots[a], model.slots[b])
        emit({"op": "narrow", "fn": fn, "a": a, "b": b, "twin": twin})

    nops = rng.randint(8, 40) if tier == "quick" else rng.randint(12, 120)
    for _ in range(nops):
        r = rng.random()
        if prop == "C03":
            if r < 0.6:
                gen_sup(True)
            elif r < 0.7:
                gen_warm()
            elif r < 0.8:
                gen_narrow(False)
            elif r < 0.9:
                gen_pose_op()
            else:
                gen_simple(False, ("center", "first"))
        elif prop == "C14":
            if r < 0.35:
                gen_pose_op()
            elif r < 0.55:
                gen_sup(True)
            elif r < 0.75:
                gen_simple(True)
            else:
                gen_narrow(True)
        else:  # C19
            if r < 0.7:
                gen_narrow(False)
            elif r < 0.85:
                gen_pose_op()
            elif r < 0.95:
                gen_warm()
            else:
                gen_sup(False)
    if prop in ("C03", "C14"):  # end-of-run sweep: every slot along the 26 lattice directions
        lattice = [[x, y, z] for x in (-1.0, 0.0, 1.0) for y in (-1.0, 0.0, 1.0) for z in (-1.0, 0.0, 1.0)
                   if (x, y, z) != (0.0, 0.0, 0.0)]
        for s in range(nslots):
            for d in (lattice if tier == "thorough" else rng.sample(lattice, 8)):
                emit({"op": "sup", "s": s, "d": d, "twin": True, "sweep": True})
    return {"world": WORLD, "cfg": cfg, "ops": ops}


# ----------------------------------------------------------------------------------------------- oracles
def _v(prop, oracle, at, msg):
    return {"prop": prop, "oracle": oracle, "at": at, "msg": msg}


def _finite(x):
    if x is None:
        return True
    if isinstance(x, (list, tuple)):
        return all(_finite(v) for v in x)
    if isinstance(x, bool):
        return True
    if isinstance(x, (int, float)):
        return math.isfinite(x)
    return True


def _L1(e):
    return geom.scale_L([(e["spec"], e["pose"])])


def judge_sup(prop, k, op, o, e, check_truth=True):
    """C03 (i)-(iii) for one support query."""
    spec, pose = e["spec"], e["pose"]
    L = _L1(e)
    tol = 1e-9 * L
    d = np.array(op["d"], dtype=float)
    dh = d / np.linalg.norm(d)
    p = np.array(o["p"], dtype=float)
    if not np.all(np.isfinite(p)):
        return _v(prop, "K.sup.nonfinite", k, "support point %s is not finite (%s, d=%s)" % (o["p"], spec["kind"], op["d"]))
    if check_truth:
        dist = geom.set_distance(spec, pose, p)
        if dist > tol:
            return _v(prop, "K.sup.member", k, "support point of %s is %.3g outside the point set (tol %.3g), d=%s"
                      % (spec["kind"], dist, tol, op["d"]))
        h = geom.support_value(spec, pose, dh)
        if p @ dh < h - tol:
            return _v(prop, "K.sup.extreme", k, "support point of %s projects %.3g below the maximum along d=%s "
                                                "(tol %.3g)" % (spec["kind"], h - p @ dh, op["d"], tol))
    if "tw" in o:
        tw = np.array(o["tw"], dtype=float)
        if abs(p @ dh - tw @ dh) > tol:
            return _v(prop, "K.sup.history", k, "used %s answers %.3g lower/higher along d than a fresh one at the "
                                                "same pose (tol %.3g), d=%s" % (spec["kind"], p @ dh - tw @ dh, tol,
                                                                               op["d"]))
        if geom.unique_gap(spec, pose, dh) > 1e-6 and float(np.linalg.norm(p - tw)) > 10 * tol:
            return _v(prop, "K.sup.history.point", k, "used %s returns a different support point than a fresh one "
                                                      "(|diff| %.3g) although the maximiser is unique, d=%s"
                      % (spec["kind"], float(np.linalg.norm(p - tw)), op["d"]))
    return None


def _pair_L(ea, eb):
    return geom.scale_L([(ea["spec"], ea["pose"]), (eb["spec"], eb["pose"])])


def _is_polytope(e):
    return e["spec"]["kind"] in ("box", "mesh", "hull") and not e["spec"].get("margin")


def _nverts(e):
    return 8 if e["spec"]["kind"] == "box" else len(e["spec"]["vertices"])


def judge_c19_narrow(prop, k, op, o, ea, eb, budget=1000):
    st = o.get("st")
    fn = op["fn"]
    desc = "%s(%s, %s)" % (fn, ea["spec"]["kind"] + ("+margin" if ea["spec"].get("margin") else ""),
                          "same object" if op["a"] == op["b"] else
                          eb["spec"]["kind"] + ("+margin" if eb["spec"].get("margin") else ""))
    if st == "budget":
        return _v(prop, "K.clock", k, "%s exceeded %d support evaluations: %s" % (desc, budget, o.get("clock")))
    if st == "linebudget":
        return _v(prop, "K.lineclock", k, "%s exceeded the interpreted line budget (%s lines)" % (desc, o.get("lines")))
    if st == "exc":
        allowed = (fn in ("epa", "epa_big") and o.get("exc") == "AssertionError" and o.get("where", "").startswith("epa.py")
                   and not (_is_polytope(ea) and _is_polytope(eb)))
        if allowed:
            return None
        v = _v(prop, "K.narrow.exception", k, "%s raised %s: %s (%s)" % (desc, o.get("exc"), o.get("msg"),
                                                                        o.get("where")))
        v["tags"] = []
        if (o.get("ctx") or {}).get("partial_simplex"):
            v["tags"].append("partial_simplex")
        if _is_polytope(ea) and _is_polytope(eb):
            v["tags"] += ["minkowski_vertices=%d" % (_nverts(ea) * _nverts(eb)),
                         "minkowski_faces_can_exceed_64" if 2 * _nverts(ea) * _nverts(eb) - 4 > 64
                         else "minkowski_faces_at_most_64"]
        return v
    r = o.get("r") or {}
    for key, val in r.items():
        if key == "d" and val == MAX_FLOAT and r.get("p") is None:
            continue  # documented clip
        if not _finite(val):
            return _v(prop, "K.narrow.nonfinite", k, "%s returned non-finite %s=%s" % (desc, key, val))
    clk = o.get("clk") or {}
    per = max([0] + [v for kk, v in clk.items()])
    limit = budget * (2 if op["a"] == op["b"] else 1)
    if per > limit:
        return _v(prop, "K.clock", k, "%s used %s support evaluations" % (desc, clk))
    return None


def _cmp_narrow(fn, r, tw, L):
    """Live vs fresh twin for one narrow-phase result; returns a message or None."""
    if tw is None or "exc" in tw or "budget" in tw:
        return None  # the twin itself failed: nothing to compare with (C19's business)
    tol = (1e-5 if fn in ("jolt_distance", "jolt_distance_noclip", "epa", "epa_big") else 1e-3) * L
    if "d" in r and "d" in tw:
        if r["d"] == MAX_FLOAT or tw["d"] == MAX_FLOAT:
            if r["d"] != tw["d"] and min(r["d"], tw["d"]) < 300.0:
                return "clip differs: %r vs fresh %r" % (r["d"], tw["d"])
        elif abs(r["d"] - tw["d"]) > 2 * tol:
            return "distance %.9g vs fresh %.9g (allowed difference %.3g)" % (r["d"], tw["d"], 2 * tol)
    # MPR's depth is not compared either: C08 bounds it from below only (it is the depth along the portal's ray, which
    # legitimately depends on which of several tied support vertices a mesh returns).
    if "b" in r and "b" in tw and r["b"] != tw["b"]:
        clr = tw.get("clr")
        if clr is not None and clr > 1e-3 * L:
            return "boolean %s vs fresh %s although the fresh pair's clearance is %.3g > 1e-3*L" % (r["b"], tw["b"], clr)
    # EPA's translation vector is deliberately not compared: it depends on which (possibly lower-dimensional)
    # simplex GJK happens to hand over, which is C07's subject and not a statement about update_pose.
    return None


def judge(plan, jr, prop="C03"):
    model = Model()
    obs = jr["obs"]
    budget = int(plan.get("cfg", {}).get("support_budget", 1000))
    for k, op in enumerate(plan["ops"]):
        o = obs[k]
        if o is None:
            break
        before = None
        if op["op"] == "pose" and op.get("s") in model.slots:
            before = dict(model.slots[op["s"]])
        live = model.apply(op, o)
        if o.get("st") == "skip" or not live:
            continue
        kind = op["op"]
        st = o.get("st")
        v = None
        if kind == "new":
            if st != "ok":
                v = _v(prop, "K.new.exception", k, "constructing %s raised %s: %s" % (op["spec"]["kind"], o.get("exc"), o.get("msg")))
        elif kind == "pose":
            e = model.slots[op["s"]]
            if st == "exc":
                expected = e["spec"]["kind"] == "hull" and o.get("exc") == "NotImplementedError"
                if not expected and prop == "C14":
                    v = _v(prop, "K.pose.exception", k, "update_pose on %s raised %s: %s" % (e["spec"]["kind"], o.get("exc"), o.get("msg")))
            elif st != "ok" and prop == "C14":
                v = _v(prop, "K.pose.exception", k, "update_pose ended with %s" % st)
        elif kind in ("sup", "warm", "aabb", "center", "first", "c2o"):
            e = model.slots[op["s"]]
            if st != "ok":
                if prop in ("C03", "C14") and (prop == "C14" or kind in ("sup", "warm", "center", "first")):
                    hist = " after %d update_pose call(s)" % e["poses"] if e["poses"] else ""
                    v = _v(prop, "K.query.exception", k, "%s on %s%s raised %s: %s (%s)" % (
                        kind, e["spec"]["kind"], hist, o.get("exc", st), o.get("msg"), o.get("where")))
            elif kind == "sup":
                if prop == "C03":
                    v = judge_sup(prop, k, op, o, e, True)
                elif prop == "C14":
                    v = judge_sup(prop, k, op, o, e, False)
            elif kind in ("center", "first") and prop == "C03":
                p = np.array(o["v"], dtype=float)
                L = _L1(e)
                dist = geom.set_distance(e["spec"], e["pose"], p) if np.all(np.isfinite(p)) else float("inf")
                if dist > 1e-9 * L:
                    v = _v(prop, "K.%s.member" % kind, k, "%s() of %s is %.3g outside the point set" % (
                        "first_vertex" if kind == "first" else "center", e["spec"]["kind"], dist))
            if v is None and prop == "C14" and st == "ok" and "tw" in o and kind in ("aabb", "center", "first", "c2o"):
                a, b = np.array(o["v"], dtype=float), np.array(o["tw"], dtype=float)
                L = _L1(e)
                same = a.shape == b.shape and bool(np.all((np.abs(a - b) <= 1e-9 * L) | (np.isnan(a) & np.isnan(b))
                                                          | (a == b)))
                if not same:
                    v = _v(prop, "K.%s.fresh" % kind, k, "%s of %s after %d update_pose call(s) differs from a fresh "
                           "collider at the last pose by %.3g" % (kind, e["spec"]["kind"], e["poses"],
                                                                  float(np.max(np.abs(a - b))) if a.shape == b.shape else -1))
        elif kind == "narrow":
            ea, eb = model.slots[op["a"]], model.slots[op["b"]]
            if prop == "C19":
                v = judge_c19_narrow(prop, k, op, o, ea, eb, budget)
            elif prop == "C14":
                if st == "ok" and "tw" in o:
                    msg = _cmp_narrow(op["fn"], o["r"], o["tw"], _pair_L(ea, eb))
                    if msg:
                        v = _v(prop, "K.narrow.fresh", k, "%s on colliders moved by update_pose (%d, %d calls): %s" % (
                            op["fn"], ea["poses"], eb["poses"], msg))
                elif st == "exc" and "tw" not in o:
                    pass
        if v is not None:
            return [v]
    return []


# ------------------------------------------------------------------------------------------- bookkeeping
def signature(plan):
    sig = []
    kinds = {}
    for op in plan["ops"]:
        if op.get("sweep"):
            continue
        k = op["op"]
        if k == "new":
            kinds[op["s"]] = op["spec"]["kind"][:3] + ("m" if op["spec"].get("margin") else "")
            sig.append("N" + kinds[op["s"]])
        elif k == "pose":
            sig.append("P%s%s%s" % (op["s"], (op.get("how") or "")[:1], "d" if op.get("dup") else ""))
        elif k == "narrow":
            sig.append("X%s.%s%s" % (op["fn"][:3] + op["fn"][-3:], op["a"], op["b"]))
        elif k == "warm":
            sig.append("W%s" % op["s"])
        else:
            sig.append("%s%s" % (k[0], op["s"]))
    return "".join(sig)


def stats(plan, jr):
    s = {}

    def inc(k, n=1):
        s[k] = s.get(k, 0) + n

    model = Model()
    prop = plan.get("prop", "")
    changed = False
    judged_after = False
    warmed = set()
    fault_seen = False
    for k, op in enumerate(plan["ops"]):
        o = jr["obs"][k]
        if o is None:
            break
        live = model.apply(op, o)
        if not live or o.get("st") == "skip":
            continue
        inc("ops")
        kind = op["op"]
        if kind == "pose":
            changed = True
            if op.get("how"):
                inc("fault.pose-delivery." + op["how"].split(":")[0])
                fault_seen = True
            if op.get("dup"):
                inc("fault.dup")
                fault_seen = True
            if o.get("exc") == "NotImplementedError":
                inc("probe.hull_update_pose_not_implemented")
        elif kind == "warm":
            e = model.slots[op["s"]]
            changed = True
            if e["spec"]["kind"] == "mesh":
                inc("fault.cache-warm.burst")
                fault_seen = True
                warmed.add(op["s"])
        elif kind == "narrow":
            changed = True
            ea, eb = model.slots[op["a"]], model.slots[op["b"]]
            for sl, e in ((op["a"], ea), (op["b"], eb)):
                if e["spec"]["kind"] == "mesh":
                    inc("fault.cache-warm.by_narrow_phase")
                    warmed.add(sl)
            if op["a"] == op["b"]:
                inc("fault.self-pair")
                fault_seen = True
            if o.get("st") == "ok":
                inc("judged.narrow." + op["fn"])
                clk = o.get("clk") or {}
                per = max([0] + list(clk.values()))
                s["max.support_evals." + op["fn"]] = max(s.get("max.support_evals." + op["fn"], 0), per)
                b = "0-10" if per <= 10 else "11-30" if per <= 30 else "31-100" if per <= 100 else "101-300" if per <= 300 else "301-1000" if per <= 1000 else ">1000"
                h = s.setdefault("hist.support_evals", {})
                h[b] = h.get(b, 0) + 1
                inc("support_evaluations", sum(clk.values()))
                r = o.get("r") or {}
                if r.get("d") == MAX_FLOAT:
                    inc("probe.jolt_clip")
                if r.get("d") == 0.0 or r.get("b") is True:
                    inc("probe.narrow_overlapping")
                if r.get("partial_simplex"):
                    inc("probe.epa_on_partial_simplex")
                if "success" in r:
                    inc("probe.epa_ran")
                    if not r["success"]:
                        inc("probe.epa_not_converged")
                if "tw" in o:
                    tw = o["tw"]
                    if isinstance(tw, dict) and ("exc" in tw or "budget" in tw):
                        inc("probe.twin_failed")
                    if changed:
                        judged_after = True
            elif o.get("st") == "exc":
                inc("probe.narrow_exception." + str(o.get("exc")))
        elif kind == "sup" and o.get("st") == "ok":
            e = model.slots[op["s"]]
            inc("judged.sup." + e["spec"]["kind"])
            if e["poses"] or op["s"] in warmed:
                judged_after = True
            if "tw" in o:
                if e["spec"]["kind"] == "mesh":
                    inc("probe.mesh_sup_with_twin")
                    if op["s"] in warmed:
                        inc("probe.mesh_sup_from_warm_cache")
                    if o["p"] != o["tw"]:
                        inc("probe.mesh_warm_point_differs_from_cold")
                d = np.array(op["d"], dtype=float)
                try:
                    if geom.unique_gap(e["spec"], e["pose"], d / np.linalg.norm(d)) < 1e-9:
                        inc("probe.support_tie")
                except Exception:
                    pass
        elif kind in ("aabb", "center", "first", "c2o") and o.get("st") == "ok":
            inc("judged." + kind)
            if model.slots[op["s"]]["poses"]:
                judged_after = True
    s["nontrivial"] = 1 if (changed and judged_after) or (prop == "C19" and s.get("ops", 0) > 0) else 0
    if not fault_seen:
        s["fault_free"] = 1
    return s


def _round_sig(x, n=3):
    if x == 0 or not math.isfinite(x):
        return x
    return float("%.*g" % (n, x))


def shrink_candidates(plan):
    """Simpler variants of a failing plan: drop delivery / dup / twin flags, identity rotations, rounder translations,
    sizes and directions (rotations are never rounded: poses must stay orthonormal)."""
    import copy
    ops = plan["ops"]
    for k, op in enumerate(ops):
        for key in ("dup", "how", "share", "stack"):
            if key in op and not (key == "stack" and any((o.get("how") or "").startswith("pstack") for o in ops)):
                p = copy.deepcopy(plan)
                del p["ops"][k][key]
                yield p
        if op["op"] in ("new", "pose") and op.get("pose") is not None and not op.get("share"):
            T = np.array(op["pose"], dtype=float)
            if not np.array_equal(T[:3, :3], np.eye(3)) and op.get("spec", {}).get("kind") != "hull":
                p = copy.deepcopy(plan)
                T2 = T.copy()
                T2[:3, :3] = np.eye(3)
                p["ops"][k]["pose"] = T2.tolist()
                yield p
            t = [_round_sig(v, 2) for v in T[:3, 3]]
            if t != T[:3, 3].tolist():
                p = copy.deepcopy(plan)
                T2 = T.copy()
                T2[:3, 3] = t
                p["ops"][k]["pose"] = T2.tolist()
                yield p
        if op["op"] == "new":
            spec = op["spec"]
            for key in ("radius", "height", "length"):
                if key in spec and _round_sig(spec[key], 2) != spec[key] and _round_sig(spec[key], 2) > 0:
                    p = copy.deepcopy(plan)
                    p["ops"][k]["spec"][key] = _round_sig(spec[key], 2)
                    yield p
            for key in ("radii", "size"):
                if key in spec:
                    r = [_round_sig(v, 2) for v in spec[key]]
                    if r != spec[key] and all(v > 0 for v in r):
                        p = copy.deepcopy(plan)
                        p["ops"][k]["spec"][key] = r
                        yield p
            if "margin" in spec:
                p = copy.deepcopy(plan)
                del p["ops"][k]["spec"]["margin"]
                yield p
        if op["op"] == "sup":
            d = op["d"]
            r = [_round_sig(v, 2) for v in d]
            if r != d and any(r):
                p = copy.deepcopy(plan)
                p["ops"][k]["d"] = r
                yield p
        if op["op"] == "warm" and len(op["dirs"]) > 1:
            for i in range(len(op["dirs"])):
                p = copy.deepcopy(plan)
                del p["ops"][k]["dirs"][i]
                yield p
