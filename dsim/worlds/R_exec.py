"""World R executor: BoundingVolumeHierarchy over a real pytransform3d UrdfTransformManager (URDF text from the plan),
free colliders via add_collider, joint / pose change histories, broad-phase queries and self-collision detection.
For every judged query it journals what the oracles need: each collider's pose, the transform manager's current
transform, each collider's AABB, and (for detect) the all-pairs narrow-phase verdicts taken on fresh twins."""
import warnings

import numpy as np
from pytransform3d.urdf import UrdfTransformManager

from distance3d.broad_phase import BoundingVolumeHierarchy
from distance3d import gjk, mpr, self_collision
from dsim.worker import Skip
from dsim.worlds.K_exec import build, build_from


def _names(pairs):
    return sorted([str(a[0]), str(b[0])] for a, b in pairs)


class _CallClock:
    """Virtual clock for self_collision.detect*: every narrow-phase call it makes (gjk.gjk_intersection, looked up on the
    gjk package at call time) runs with both colliders' support functions counted; budget per collider and call."""

    def __init__(self, budget):
        from dsim.worlds.K_exec import Clock
        self.calls = 0
        self.max_evals = 0
        self.orig = gjk.gjk_intersection
        outer = self

        def gjk_intersection(c1, c2, *a, **k):
            clk = Clock(budget)
            clk.wrap(c1, "a")
            clk.wrap(c2, "b")
            try:
                return outer.orig(c1, c2, *a, **k)
            finally:
                clk.release()
                outer.calls += 1
                outer.max_evals = max([outer.max_evals] + list(clk.counts.values()))

        gjk.gjk_intersection = gjk_intersection

    def release(self):
        gjk.gjk_intersection = self.orig


class Exec:
    def __init__(self, cfg):
        self.b = {}
        self.budget = int(cfg.get("support_budget", 0)) or None

    def close(self):
        self.b.clear()

    def _bvh(self, i):
        e = self.b.get(i)
        if e is None:
            raise Skip()
        return e

    def _state(self, e):
        """Pose of every collider, the manager's current transform, and the collider's current AABB."""
        bvh, tm = e["bvh"], e["tm"]
        out = {}
        for frame, c in bvh.colliders_.items():
            T = np.asarray(tm.get_transform(frame, "origin"), dtype=float)
            rec = {"c2o": np.asarray(c.collider2origin(), dtype=float).tolist(), "tm": T.tolist(),
                   "aabb": np.asarray(c.aabb(), dtype=float).tolist()}
            # where the collider's geometry actually is: support values along the six axis directions, next to those of
            # a fresh collider built at the manager's transform (a collider whose pose field is right but whose cached
            # vertices are stale is not at that pose)
            spec = e["specs"].get(frame)
            if spec is not None:
                tw = build(spec, T.copy())
                live, fresh = [], []
                for i in range(3):
                    for sgn in (1.0, -1.0):
                        d = np.zeros(3)
                        d[i] = sgn
                        live.append(float(np.dot(c.support_function(d.copy()), d)))
                        fresh.append(float(np.dot(tw.support_function(d.copy()), d)))
                rec["sup"], rec["sup_tw"] = live, fresh
            out[str(frame)] = rec
        return out

    def _twins(self, e):
        tw = {}
        for frame in e["bvh"].colliders_:
            T = np.array(e["tm"].get_transform(frame, "origin"), dtype=float)
            tw[frame] = build(e["specs"][frame], T)
        return tw

    def _pairs(self, e):
        """All-pairs narrow-phase verdicts on fresh twins (so the oracle neither disturbs nor is disturbed by caches)."""
        frames = sorted(e["bvh"].colliders_, key=str)
        out = []
        for i, f in enumerate(frames):
            for g in frames[i + 1:]:
                tw = self._twins_pair(e, f, g)
                rec = {"f": str(f), "g": str(g)}
                try:
                    rec["jolt"] = bool(gjk.gjk_intersection_jolt(tw[0], tw[1]))
                    tw = self._twins_pair(e, f, g)
                    rec["libccd"] = bool(gjk.gjk_intersection_libccd(tw[0], tw[1]))
                    tw = self._twins_pair(e, f, g)
                    i_, depth, _, _ = mpr.mpr_penetration(tw[0], tw[1])
                    rec["mpr"] = bool(i_)
                    rec["depth"] = None if depth is None else float(depth)
                    tw = self._twins_pair(e, f, g)
                    rec["dist"] = float(gjk.gjk_distance_jolt(tw[0], tw[1], max_distance_squared=float("inf"))[0])
                except Exception as ex:
                    rec["exc"] = type(ex).__name__
                out.append(rec)
        return out

    def _twins_pair(self, e, f, g):
        tm = e["tm"]
        return (build(e["specs"][f], np.array(tm.get_transform(f, "origin"), dtype=float)),
                build(e["specs"][g], np.array(tm.get_transform(g, "origin"), dtype=float)))

    def run(self, op):
        k = op["op"]
        if k == "robot":
            tm = UrdfTransformManager()
            with warnings.catch_warnings():
                warnings.simplefilter("ignore")
                tm.load_urdf(op["urdf"])
            base2origin = np.array(op["base_pose"], dtype=float) if op.get("base_pose") is not None else np.eye(4)
            bvh = BoundingVolumeHierarchy(tm, op["base"], base2origin)
            bvh.fill_tree_with_colliders(tm, fill_self_collision_whitelists=True)
            e = {"tm": tm, "bvh": bvh, "specs": dict(op["geoms"]), "base": op["base"]}
            self.b[op["b"]] = e
            if op.get("empty_whitelists"):
                for f in list(bvh.colliders_):
                    bvh.self_collision_whitelists_[f] = [f]
            return {"frames": sorted(str(f) for f in bvh.colliders_),
                    "wl": {str(f): sorted(str(x) for x in wl) for f, wl in bvh.self_collision_whitelists_.items()}}
        e = self._bvh(op["b"] if "b" in op else op["a"])
        bvh, tm = e["bvh"], e["tm"]
        if k == "free":
            arr = np.array(op["pose"], dtype=float)
            tm.add_transform(op["frame"], op.get("parent", "origin"), arr)
            e.setdefault("arrs", {})[op["frame"]] = arr
            # the collider is constructed from what the manager hands out (for a frame attached directly to "origin"
            # that is the registered array itself)
            A2B = tm.get_transform(op["frame"], "origin")
            shared = e.get("ctor", {}).get(op.get("share")) if op.get("share") is not None else None
            if shared is not None:
                A2B = shared  # the caller constructs this collider from the array object it used for another one
            c = build_from(op["spec"], A2B) if op["spec"]["kind"] != "hull" else build(op["spec"], A2B)
            e.setdefault("ctor", {})[op["frame"]] = A2B
            bvh.add_collider(op["frame"], c)
            bvh.self_collision_whitelists_[op["frame"]] = list(op["wl"])
            for f in op.get("wl_into", []):  # asymmetric on purpose: others may or may not whitelist the new frame
                if f in bvh.self_collision_whitelists_:
                    bvh.self_collision_whitelists_[f] = list(bvh.self_collision_whitelists_[f]) + [op["frame"]]
            e["specs"][op["frame"]] = op["spec"]
            e.setdefault("parents", {})[op["frame"]] = op.get("parent", "origin")
            return {}
        if k == "joint":
            tm.set_joint(op["j"], float(op["v"]))
            return {}
        if k == "move":
            parent = e.get("parents", {}).get(op["frame"])
            if parent is None:
                raise Skip()
            arr = e.get("arrs", {}).get(op["frame"])
            if op.get("inplace") and arr is not None:
                arr[:] = np.array(op["pose"], dtype=float)  # same array object the manager holds
            else:
                arr = np.array(op["pose"], dtype=float)
                tm.add_transform(op["frame"], parent, arr)
                e.setdefault("arrs", {})[op["frame"]] = arr
            return {}
        if k == "remount":
            tm.add_transform(op["frame"], op["link"], np.array(op["pose"], dtype=float))
            return {}
        if k == "base":
            tm.add_transform(e["base"], "origin", np.array(op["pose"], dtype=float))
            return {}
        if k == "update":
            bvh.update_collider_poses()
            if op.get("dup"):
                bvh.update_collider_poses()
            return {}
        if k == "qcol":
            c = build(op["spec"], op["pose"])
            res = bvh.aabb_overlapping_colliders(c, whitelist=tuple(op.get("wl", ())))
            ok = all(res[f] is bvh.colliders_.get(f) for f in res)
            return {"q": np.asarray(c.aabb(), dtype=float).tolist(), "got": sorted(str(f) for f in res),
                    "payload_ok": bool(ok), "state": self._state(e)}
        if k == "qself":
            pairs = bvh.aabb_overlapping_with_self()
            ok = all(a[1] is bvh.colliders_.get(a[0]) and b[1] is bvh.colliders_.get(b[0]) for a, b in pairs)
            return {"pairs": [[str(a[0]), str(b[0])] for a, b in pairs], "payload_ok": bool(ok),
                    "state": self._state(e)}
        if k == "qother":
            e2 = self._bvh(op["o"])
            pairs = bvh.aabb_overlapping_with_other_bvh(e2["bvh"])
            ok = all(a[1] is bvh.colliders_.get(a[0]) and b[1] is e2["bvh"].colliders_.get(b[0]) for a, b in pairs)
            return {"pairs": [[str(a[0]), str(b[0])] for a, b in pairs], "payload_ok": bool(ok),
                    "state": self._state(e), "state_o": self._state(e2)}
        if k in ("detect", "detect_any"):
            clock = _CallClock(self.budget) if self.budget else None
            try:
                if k == "detect":
                    res = self_collision.detect(bvh)
                    out = {"contacts": {str(f): bool(v) for f, v in res.items()}}
                else:
                    out = {"any": bool(self_collision.detect_any(bvh))}
            finally:
                if clock is not None:
                    clock.release()
            if clock is not None:
                out["clk_calls"] = clock.calls
                out["clk_max"] = clock.max_evals
            out["wl"] = {str(f): sorted(str(x) for x in wl) for f, wl in bvh.self_collision_whitelists_.items()}
            out["state"] = self._state(e)
            out["pairs"] = [] if self.budget else self._pairs(e)  # C19 mode needs the clock only
            return out
        raise ValueError("unknown op %r" % k)
