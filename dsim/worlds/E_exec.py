"""World E executor: a flat corpus of calls of public (mostly jitted) functions. No oracle of its own - it exists as
workload for the two-replica comparison of C20."""
import importlib

import numpy as np

MODS = {
    "distance": "distance3d.distance",
    "containment": "distance3d.containment",
    "containment_test": "distance3d.containment_test",
    "geometry": "distance3d.geometry",
    "utils": "distance3d.utils",
    "aabb_tree": "distance3d.aabb_tree",
    "hydro": "distance3d.hydroelastic_contact",
    "hydro_ti": "distance3d.hydroelastic_contact._tetrahedron_intersection",
    "hydro_mp": "distance3d.hydroelastic_contact._mesh_processing",
}
INT_ARGS = ("triangles", "tetrahedra")


def conv(name, val):
    if isinstance(val, (int, float, bool)):
        return val
    if name in INT_ARGS:
        return np.array(val, dtype=int).reshape(-1, 3 if name == "triangles" else 4)
    a = np.array(val, dtype=float)
    if a.size == 0 and isinstance(val, dict):
        return a
    return np.ascontiguousarray(a)


def out(x):
    if isinstance(x, tuple):
        return [out(v) for v in x]
    if isinstance(x, list):
        return [out(v) for v in x]
    if isinstance(x, np.ndarray):
        return x.tolist()
    if isinstance(x, (np.floating, np.integer, np.bool_)):
        return x.item()
    return x


class Exec:
    def __init__(self, cfg):
        self.mods = {}

    def close(self):
        pass

    def run(self, op):
        m = self.mods.get(op["mod"])
        if m is None:
            m = self.mods[op["mod"]] = importlib.import_module(MODS[op["mod"]])
        f = getattr(m, op["fn"])
        args = []
        for name, val in op["args"]:
            if isinstance(val, dict) and "empty" in val:
                args.append(np.empty(tuple(val["empty"]), dtype=float) * 0.0)
            else:
                args.append(conv(name, val))
        if op.get("pre") == "barycentric":  # X1/X2 are derived with the library's own helper
            from distance3d.hydroelastic_contact import barycentric_transforms
            t1, e1, t2, e2 = args
            X1 = np.ascontiguousarray(barycentric_transforms(t1[np.newaxis])[0])
            X2 = np.ascontiguousarray(barycentric_transforms(t2[np.newaxis])[0])
            args = [t1, e1, X1, t2, e2, X2]
        try:
            r = f(*args)
        except Exception as ex:
            return {"st": "exc", "exc": type(ex).__name__, "msg": str(ex)[:200], "where": "direct call"}
        return {"r": out(r)}
