"""C20: two engine replicas (numba-compiled as installed / interpreted with NUMBA_DISABLE_JIT=1) are fed the identical
plan in lock-step; the parent compares the two journals op by op under per-kind comparators.

Plans come from Worlds T, K, R, H (stateful histories) and E (flat corpus over the public jitted surface)."""
import math

import numpy as np

from .. import geom
from . import T as WT, K as WK, R as WR, H as WH, E as WE

WORLD = "X"
WORLDS = {"T": WT, "K": WK, "R": WR, "H": WH, "E": WE}
MAX_FLOAT = float(np.finfo(float).max)


def gen(rng, tier="quick", prop="C20"):
    w = rng.choice(["T", "T", "K", "K", "K", "R", "H", "E", "E", "E"])
    if w == "T":
        p = WT.gen(rng, "quick", "C05")
    elif w == "K":
        p = WK.gen(rng, "quick", rng.choice(["C14", "C14", "C19", "C03"]))
        for op in p["ops"]:  # twins give the clearance needed for the grazing band of boolean tests
            if op["op"] == "narrow":
                op["twin"] = True
        p["ops"] = p["ops"][:40]
    elif w == "R":
        p = WR.gen(rng, "quick", "C06")
        p["ops"] = p["ops"][:25]
    elif w == "H":
        p = WH.gen(rng, "quick", "C16")
        p["ops"] = p["ops"][:6]
        for op in p["ops"]:  # coarse meshes only: the interpreted replica needs minutes per call on fine ones
            if op["op"] == "body" and op["kind"] in ("cylinder", "capsule"):
                n = 2 * math.pi * op["params"]["radius"] / op["params"]["hint"]
                if n > 16:
                    op["params"]["hint"] = 2 * math.pi * op["params"]["radius"] / rng.choice([6, 8, 10])
    else:
        p = WE.gen(rng, tier, "C20")
    p["cfg"]["origin_world"] = w
    return p


def _v(oracle, at, msg):
    return {"prop": "C20", "oracle": oracle, "at": at, "msg": msg}


def _num_close(a, b, rel, abs_):
    if a is None or b is None:
        return a is None and b is None
    if isinstance(a, bool) or isinstance(b, bool):
        return a == b
    if math.isnan(a) or math.isnan(b):
        return math.isnan(a) and math.isnan(b)
    if math.isinf(a) or math.isinf(b):
        return a == b
    return abs(a - b) <= abs_ + rel * max(abs(a), abs(b))


def deep_close(a, b, rel=1e-9, abs_=1e-12):
    """Structural comparison: numbers within tolerance, everything else exactly. Returns None or a path string."""
    if isinstance(a, dict) and isinstance(b, dict):
        if set(a) != set(b):
            return "keys %s vs %s" % (sorted(a), sorted(b))
        for k in a:
            r = deep_close(a[k], b[k], rel, abs_)
            if r:
                return "%s.%s" % (k, r)
        return None
    if isinstance(a, (list, tuple)) and isinstance(b, (list, tuple)):
        if len(a) != len(b):
            return "length %d vs %d" % (len(a), len(b))
        for i, (x, y) in enumerate(zip(a, b)):
            r = deep_close(x, y, rel, abs_)
            if r:
                return "[%d]%s" % (i, r)
        return None
    if isinstance(a, (int, float)) and isinstance(b, (int, float)) and not isinstance(a, bool) and not isinstance(b, bool):
        return None if _num_close(float(a), float(b), rel, abs_) else "%r vs %r" % (a, b)
    return None if a == b else "%r vs %r" % (a, b)


# ------------------------------------------------------------------------------------------- comparators
def cmp_T(op, a, b, ctx):
    k = op["op"]
    if k in ("qbox", "qtree") and a.get("dtype") != b.get("dtype"):
        return "dtype kind of the returned index array(s): %s vs %s" % (a.get("dtype"), b.get("dtype"))
    if k == "qbox":
        if a["flag"] != b["flag"] or sorted(map(str, a["hits"])) != sorted(map(str, b["hits"])):
            return "query result differs: %s vs %s" % (sorted(map(str, a["hits"]))[:6], sorted(map(str, b["hits"]))[:6])
    elif k == "qtree":
        pa = sorted(map(str, ([p[0], p[1]] + p[2:] for p in a["pairs"])))
        pb = sorted(map(str, ([p[0], p[1]] + p[2:] for p in b["pairs"])))
        if a["flag"] != b["flag"] or pa != pb or sorted(a["oself"]) != sorted(b["oself"]) or sorted(a["oother"]) != sorted(b["oother"]):
            return "tree-tree result differs: %d vs %d pairs" % (len(pa), len(pb))
    elif k == "root":
        return deep_close(a, b, 0.0, 0.0)
    elif k == "ins":
        if a.get("filled") != b.get("filled"):
            return "filled_len %s vs %s" % (a.get("filled"), b.get("filled"))
    return None


def cmp_K(op, a, b, ctx):
    k = op["op"]
    model = ctx["model"]
    if k == "sup":
        e = model.slots[op["s"]]
        L = geom.scale_L([(e["spec"], e["pose"])])
        d = np.array(op["d"], dtype=float)
        dh = d / np.linalg.norm(d)
        for key in ("p", "tw"):
            if key in a and key in b:
                pa, pb = np.array(a[key], dtype=float), np.array(b[key], dtype=float)
                if not (np.all(np.isfinite(pa)) and np.all(np.isfinite(pb))):
                    if not np.array_equal(np.isfinite(pa), np.isfinite(pb)):
                        return "support point finiteness differs: %s vs %s" % (a[key], b[key])
                    continue
                if abs(pa @ dh - pb @ dh) > 1e-9 * L:
                    return "support value differs by %.3g (%s)" % (abs(pa @ dh - pb @ dh), e["spec"]["kind"])
                if geom.unique_gap(e["spec"], e["pose"], dh) > 1e-6 and np.linalg.norm(pa - pb) > 1e-8 * L:
                    return "support point differs by %.3g (%s)" % (np.linalg.norm(pa - pb), e["spec"]["kind"])
    elif k in ("aabb", "center", "first", "c2o"):
        e = model.slots[op["s"]]
        L = geom.scale_L([(e["spec"], e["pose"])])
        return deep_close({"v": a.get("v"), "tw": a.get("tw")}, {"v": b.get("v"), "tw": b.get("tw")}, 1e-9, 1e-9 * L)
    elif k == "narrow":
        ea, eb = model.slots[op["a"]], model.slots[op["b"]]
        L = geom.scale_L([(ea["spec"], ea["pose"]), (eb["spec"], eb["pose"])])
        fn = op["fn"]
        tol = (1e-5 if fn in ("jolt_distance", "jolt_distance_noclip", "epa", "epa_big") else 1e-3) * L
        for key in ("r", "tw"):
            ra, rb = a.get(key), b.get(key)
            if not isinstance(ra, dict) or not isinstance(rb, dict):
                continue
            if ("exc" in ra) != ("exc" in rb) or ra.get("exc") != rb.get("exc"):
                return "twin outcome differs: %s vs %s" % (ra.get("exc"), rb.get("exc"))
            if ("budget" in ra) != ("budget" in rb):
                return "twin budget outcome differs"
            if "d" in ra and "d" in rb:
                da, db = ra["d"], rb["d"]
                if (da == MAX_FLOAT) != (db == MAX_FLOAT):
                    if min(da, db) < 300.0:
                        return "clip differs: %r vs %r" % (da, db)
                elif da != MAX_FLOAT and not (abs(da - db) <= 2 * tol or (math.isnan(da) and math.isnan(db))):
                    return "%s(%s, %s) distance %.9g vs %.9g (allowed %.3g)" % (
                        fn, ea["spec"]["kind"], eb["spec"]["kind"], da, db, 2 * tol)
            if "b" in ra and "b" in rb and ra["b"] != rb["b"]:
                clr = None
                for t in (a.get("tw"), b.get("tw")):
                    if isinstance(t, dict) and t.get("clr") is not None:
                        clr = t["clr"] if clr is None else min(clr, t["clr"])
                if "d" in ra:
                    clr = min(abs(ra["d"]), abs(rb["d"])) if clr is None else clr
                if clr is not None and clr > 1e-3 * L:
                    return "%s boolean %s vs %s although the pair's clearance is %.3g > 1e-3*L" % (fn, ra["b"], rb["b"], clr)
            if "success" in ra and "success" in rb and ("partial_simplex" in ra) and ra.get("partial_simplex") != rb.get("partial_simplex"):
                pass  # which rows GJK wrote may differ by an ulp-level tie; not a result
    return None


def _aabb_margin(x, y):
    """How far the pair of boxes is from the touching boundary (0 = exactly touching)."""
    m = float("inf")
    for i in range(3):
        m = min(m, abs(x[i][0] - y[i][1]), abs(x[i][1] - y[i][0]))
    return m


def cmp_R(op, a, b, ctx):
    k = op["op"]
    if "state" in a and "state" in b:
        if set(a["state"]) != set(b["state"]):
            return "collider frames differ"
        for f in a["state"]:
            L = max(1.0, float(np.max(np.abs(np.array(a["state"][f]["tm"])[:3, 3]))))
            r = deep_close(a["state"][f], b["state"][f], 1e-9, 1e-9 * L)
            if r:
                return "state of %s differs: %s" % (f, r)
    if k == "robot":
        return deep_close(a, b, 0, 0)

    def borderline(state1, state2, f, g, L=1.0):
        return _aabb_margin(state1[f]["aabb"], state2[g]["aabb"]) < 1e-9 * L

    if k == "qcol" and sorted(a["got"]) != sorted(b["got"]):
        diff = set(a["got"]) ^ set(b["got"])
        st = a["state"]
        if not all(_aabb_margin(st[f]["aabb"], a["q"]) < 1e-9 * max(1.0, float(np.max(np.abs(a["q"])))) for f in diff):
            return "aabb_overlapping_colliders differs: %s vs %s" % (sorted(a["got"]), sorted(b["got"]))
    if k == "qself":
        sa, sb = {frozenset(p) for p in a["pairs"]}, {frozenset(p) for p in b["pairs"]}
        for p in sa ^ sb:
            f, g = sorted(p) if len(p) == 2 else (list(p)[0], list(p)[0])
            if not borderline(a["state"], a["state"], f, g):
                return "aabb_overlapping_with_self differs on %s" % sorted(p)
    if k == "qother":
        sa, sb = {tuple(p) for p in a["pairs"]}, {tuple(p) for p in b["pairs"]}
        for f, g in sa ^ sb:
            if not borderline(a["state"], a["state_o"], f, g):
                return "aabb_overlapping_with_other_bvh differs on %s" % [f, g]
    if k in ("detect", "detect_any"):
        specs = ctx["model"].b[op["b"]]["specs"]
        va = WR._pair_verdicts(specs, a["state"], a["pairs"])
        vb = WR._pair_verdicts(specs, b["state"], b["pairs"])
        clear = all(va.get(p) == vb.get(p) and va.get(p) != "dontcare" for p in va)
        if clear:
            if k == "detect" and a["contacts"] != b["contacts"]:
                return "detect() differs: %s vs %s" % (a["contacts"], b["contacts"])
            if k == "detect_any" and a["any"] != b["any"]:
                return "detect_any() differs"
    return None


def cmp_H(op, a, b, ctx):
    k = op["op"]
    if k == "body":
        return deep_close(a, b, 0, 0)
    if k == "forces":
        fabs = max(float(a.get("fabs", 0.0)), float(b.get("fabs", 0.0)))
        for key in ("live", "dup", "twin", "swap", "moved"):
            if key in a and key in b:
                for w in ("w12", "w21"):
                    x, y = np.array(a[key][w]), np.array(b[key][w])
                    scale = fabs + max(float(np.linalg.norm(x[:3])), float(np.linalg.norm(y[:3])))
                    if not np.all(np.abs(x[:3] - y[:3]) <= 1e-6 * scale + 1e-14):
                        return "contact force (%s.%s) %s vs %s" % (key, w, x[:3].tolist(), y[:3].tolist())
                if a[key]["i"] != b[key]["i"] and fabs > 0:
                    return "intersection flag (%s) differs" % key
    if k == "surface":
        if a["brute"] != b["brute"] or a["tree"] != b["tree"]:
            return "sets of intersecting tetrahedron pairs differ (brute %d vs %d, tree %d vs %d)" % (
                len(a["brute"]), len(b["brute"]), len(a["tree"]), len(b["tree"]))
    return None


CMP = {"T": cmp_T, "K": cmp_K, "R": cmp_R, "H": cmp_H, "E": WE.compare}


def compare(plan, ja, jb):
    """ja = compiled journal, jb = interpreted journal."""
    w = plan["world"]
    W = WORLDS[w]
    ctx = {"model": W.Model() if hasattr(W, "Model") else None}
    oa, ob = ja["obs"], jb["obs"]
    for k, op in enumerate(plan["ops"]):
        a, b = oa[k], ob[k]
        if a is not None and "lines" in a:
            a = {kk: vv for kk, vv in a.items() if kk != "lines"}
        if b is not None and "lines" in b:
            b = {kk: vv for kk, vv in b.items() if kk != "lines"}  # the line clock runs in the interpreted replica only
        if a is None or b is None:
            if (a is None) != (b is None):
                who = "compiled" if a is None else "interpreted"
                j = ja if a is None else jb
                return [_v("X.outcome", k, "%s engine did not finish op %s (%s, signal/exit %s); the other engine did: %s"
                           % (who, op["op"], j["end"], j.get("signal"), (b if a is None else a).get("st")))]
            break
        if ctx["model"] is not None:
            try:
                ctx["model"].apply(op, a) if w == "K" else ctx["model"].apply(op)
            except Exception:
                pass
        sa, sb = a.get("st"), b.get("st")
        if sa != sb or (sa == "exc" and a.get("exc") != b.get("exc")):
            if WE.tolerated_outcome(plan, op, a, b):
                continue
            return [_v("X.outcome", k, "op %s%s: compiled -> %s, interpreted -> %s" % (
                op["op"], ":" + str(op.get("fn", "")) if op.get("fn") else "",
                a.get("exc", sa) + ((": " + str(a.get("msg"))[:120]) if sa == "exc" else ""),
                b.get("exc", sb) + ((": " + str(b.get("msg"))[:120]) if sb == "exc" else "")))]
        if sa != "ok":
            continue
        try:
            msg = CMP[w](op, a, b, ctx)
        except Exception as ex:  # comparator bug = harness error, not a violation
            raise RuntimeError("comparator failed on op %d (%s): %r" % (k, op.get("op"), ex))
        if msg:
            return [_v("X.value", k, "op %s%s: %s" % (op["op"], ":" + str(op.get("fn")) if op.get("fn") else "", msg))]
    return []


def signature(plan):
    w = plan["world"]
    return w + ":" + WORLDS[w].signature(plan)


def stats(plan, jrs):
    s = {}
    w = plan["world"]
    s["plans.world_" + w] = 1
    ja, jb = jrs
    n = 0
    exc = 0
    for a, b in zip(ja["obs"], jb["obs"]):
        if a is not None and b is not None:
            n += 1
            if a.get("st") == "exc" and b.get("st") == "exc":
                exc += 1
    s["ops"] = n
    s["judged.ops_compared"] = n
    s["probe.same_exception_in_both_engines"] = exc
    s["nontrivial"] = 1 if n >= 2 else 0
    s["fault.replica"] = 1
    if w == "E":
        for k, v in WE.stats(plan, ja).items():
            if k.startswith(("probe.", "judged.")):
                s[k] = s.get(k, 0) + v
    return s
