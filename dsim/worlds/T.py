"""World T: plan generator, reference model and oracle for C05 (AABB tree answers overlap queries exactly).

The reference model is a Python list of (box, payload, insertion number) per tree and the closed-interval overlap
test on the six numbers. It shares nothing with distance3d/aabb_tree.py.
"""
import math

WORLD = "T"


# ------------------------------------------------------------------------------------------------ model
def overlap(a, b):
    return all(a[i][0] <= b[i][1] and a[i][1] >= b[i][0] for i in range(3))


def overlap_matrix(A, B):
    """Closed-interval overlap of every box of A with every box of B (numpy; same predicate as overlap())."""
    import numpy as np
    A = np.asarray(A, dtype=float).reshape(-1, 3, 2)
    B = np.asarray(B, dtype=float).reshape(-1, 3, 2)
    return np.all((A[:, None, :, 0] <= B[None, :, :, 1]) & (A[:, None, :, 1] >= B[None, :, :, 0]), axis=2)


class Model:
    def __init__(self):
        self.trees = {}

    def apply(self, op):
        """Advance the model; returns False when the executor skips the op (slot missing)."""
        k = op["op"]
        if k == "new":
            self.trees[op["t"]] = []
            return True
        if k == "ins":
            t = self.trees.get(op["t"])
            if t is None:
                return False
            data = op.get("data")
            for i, b in enumerate(op["boxes"]):
                t.append((b, None if data is None else data[i], len(t)))
            return True
        if k in ("qbox", "root"):
            return op["t"] in self.trees
        if k == "qtree":
            return op["a"] in self.trees and op["b"] in self.trees
        return True


# -------------------------------------------------------------------------------------------- generator
def _box(rng, cfg, prev):
    style = rng.choice(cfg["styles"])
    if prev and rng.chance(0.18):
        b = rng.choice(prev)
        r = rng.random()
        if r < 0.35:
            return [list(ax) for ax in b]  # duplicate
        if r < 0.6:  # nested
            return [[ax[0] + (ax[1] - ax[0]) * 0.25, ax[1] - (ax[1] - ax[0]) * 0.25] for ax in b]
        if r < 0.75:  # sliver: a copy whose one face sticks out by a hair (1 ulp ... 4e-10)
            import math as _m
            out = [list(ax) for ax in b]
            i = rng.randrange(3)
            side = rng.randrange(2)
            v = out[i][side]
            step = rng.choice(["ulp", 1e-12, 4e-10, 1e-9])
            if step == "ulp":
                nv = _m.nextafter(v, _m.inf if side else -_m.inf)
            else:
                nv = v + (step if side else -step) * max(1.0, abs(v))
            out[i][side] = nv
            return out
        # touching: shares a face / edge / corner exactly
        out = []
        for ax in b:
            w = rng.choice([0.0, 0.5, 1.0, ax[1] - ax[0]])
            c = rng.random()
            if c < 0.4:
                out.append([ax[1], ax[1] + w])
            elif c < 0.6:
                out.append([ax[0] - w, ax[0]])
            else:
                out.append(list(ax))
        return out
    if style == "lattice":
        s = cfg["lattice_scale"]
        out = []
        for _ in range(3):
            lo = rng.randint(-4, 4)
            w = rng.choice([0, 0, 1, 1, 1, 2, 3])
            out.append([lo * s, (lo + w) * s])
        if rng.chance(0.05):
            out[rng.randrange(3)][0] *= 1.0
            out = [[-0.0 if v == 0 and rng.chance(0.5) else v for v in ax] for ax in out]
        return out
    if style == "tiny":
        c = [rng.uniform(-1, 1) for _ in range(3)]
        return [[ci - rng.logu(1e-3, 1e-1), ci + rng.logu(1e-3, 1e-1)] for ci in c]
    # uniform
    spread = cfg["spread"]
    c = [rng.gauss(0, spread) for _ in range(3)]
    out = []
    for ci in c:
        h = rng.logu(1e-2, 1e2) * 0.5 if rng.chance(0.9) else 0.0
        out.append([ci - h, ci + h])
    return out


def gen(rng, tier="quick", prop="C05"):
    big = (tier == "thorough" and rng.chance(0.35)) or (tier == "quick" and rng.chance(0.03))
    chain = big and rng.chance(0.6)  # a long monotone run of boxes: the tree is never rebalanced, so it gets deep
    cfg = {
        "styles": rng.choice([["lattice"], ["uniform"], ["lattice", "uniform"], ["lattice", "uniform", "tiny"]]),
        "lattice_scale": rng.choice([1.0, 1.0, 0.5, 0.1, 10.0]),
        "spread": rng.choice([1.0, 10.0, 100.0]),
        "modes": rng.choice([["none"], ["sort"], ["shuffle"], ["none", "sort", "shuffle"],
                             ["none", "sort", "shuffle"], ["sort", "shuffle"]]),
        "faults": sorted(f for f in ("shuffle-perm", "empty", "buffer-reuse", "self-pair", "single")
                         if rng.chance(0.6)),
    }
    faults = set(cfg["faults"])
    ntrees = rng.choice([1, 1, 2, 2, 3])
    ops = []
    model = Model()
    nbatch_max = rng.choice([1, 2, 3, 4, 6, 8])
    size_max = rng.choice([1, 3, 8, 25, 40]) if not big else rng.choice([140, 200, 400])
    if big and tier == "quick":
        nbatch_max = min(nbatch_max, 2)
        size_max = rng.choice([140, 200, 520])
    chain_x = [0.0]
    payload_no = [0]

    def emit(op):
        ops.append(op)
        model.apply(op)

    def gen_insert(t):
        prev = [e[0] for tr in model.trees.values() for e in tr]
        n = rng.randint(0 if "empty" in faults else 1, size_max)
        if "empty" in faults and rng.chance(0.1):
            n = 0
        boxes = []
        if chain and n > 0:
            n = max(n, size_max - rng.randint(0, 10))
            flat = rng.chance(0.3)
            for _ in range(n):
                w = rng.choice([0.5, 1.0, 1.0, 2.0])
                x0 = chain_x[0] + rng.choice([0.0, 0.25, 1.0])
                chain_x[0] = x0 + w * rng.choice([0.5, 1.0])
                boxes.append([[x0, x0 + w], [0.0, 0.0 if flat else 1.0], [0.0, 1.0]])
            if rng.chance(0.3):
                rng.shuffle(boxes)
        else:
            for _ in range(n):
                boxes.append(_box(rng, cfg, prev + boxes))
        mode = rng.choice(cfg["modes"])
        op = {"op": "ins", "t": t, "boxes": boxes, "mode": mode}
        if rng.chance(0.7):
            op["data"] = []
            for _ in range(n):
                op["data"].append("p%d" % payload_no[0])
                payload_no[0] += 1
        if mode == "shuffle":
            perm = list(range(n))
            if "shuffle-perm" in faults:
                c = rng.random()
                if c < 0.25:
                    perm.reverse()
                elif c < 0.5:
                    ax = rng.randrange(3)
                    perm.sort(key=lambda i: boxes[i][ax][0])
                elif c < 0.9:
                    rng.shuffle(perm)
            else:
                rng.shuffle(perm)
            op["perm"] = perm
        if "single" in faults and n <= 3 and rng.chance(0.5):
            op["single"] = True
            op["mode"] = "none"
            op.pop("perm", None)
        if "buffer-reuse" in faults and rng.chance(0.5):
            op["reuse"] = True
        emit(op)

    def gen_query():
        slots = sorted(model.trees)
        t = rng.choice(slots)
        prev = [e[0] for tr in model.trees.values() for e in tr]
        c = rng.random()
        if c < 0.7 or len(slots) == 0:
            if prev and rng.chance(0.15):  # touches exactly one face of an inserted box from outside
                b0 = rng.choice(prev)
                box = [list(ax) for ax in b0]
                i = rng.randrange(3)
                if rng.chance(0.5):
                    box[i] = [b0[i][1], b0[i][1] + rng.choice([0.0, 0.5, 1.0])]
                else:
                    box[i] = [b0[i][0] - rng.choice([0.0, 0.5, 1.0]), b0[i][0]]
            elif prev and rng.chance(0.3):
                box = [list(ax) for ax in rng.choice(prev)]
            else:
                box = _box(rng, cfg, prev)
            if rng.chance(0.1):
                box = [[-1e4, 1e4]] * 3  # everything
            emit({"op": "qbox", "t": t, "box": box})
        else:
            b = rng.choice(slots)
            if "self-pair" in faults and rng.chance(0.4):
                b = t
            emit({"op": "qtree", "a": t, "b": b})

    for t in range(ntrees):
        emit({"op": "new", "t": t})
    if "empty" in faults and rng.chance(0.5):
        gen_query()
    nb = rng.randint(1, nbatch_max)
    for _ in range(nb):
        t = rng.randrange(ntrees)
        gen_insert(t)
        for _ in range(rng.choice([0, 0, 1, 2, 4])):
            gen_query()
    for _ in range(rng.randint(1, 8)):
        gen_query()
    # end-of-run sweep: every inserted box is used once as a query (bounded), every tree pair once
    sweep_cap = 40 if tier == "quick" else 120
    for t, entries in sorted(model.trees.items()):
        idxs = list(range(len(entries)))
        if len(idxs) > sweep_cap:
            idxs = sorted(rng.sample(idxs, sweep_cap))
        for i in idxs:
            emit({"op": "qbox", "t": t, "box": [list(ax) for ax in entries[i][0]], "sweep": True})
    for a in sorted(model.trees):
        for b in sorted(model.trees):
            if a != b or "self-pair" in faults:
                if (len(model.trees[a]) > 0 and len(model.trees[b]) > 0) or "empty" in faults:
                    emit({"op": "qtree", "a": a, "b": b, "sweep": True})
    for t in sorted(model.trees):
        emit({"op": "root", "t": t})
    return {"world": WORLD, "cfg": cfg, "ops": ops}


# ----------------------------------------------------------------------------------------------- oracle
def judge(plan, jr, prop="C05"):
    """Returns a list of violations: dicts {prop, oracle, at, msg}. Stops at the first op that fails."""
    model = Model()
    out = []
    obs = jr["obs"]
    for k, op in enumerate(plan["ops"]):
        o = obs[k]
        if o is None:
            break  # crash / hang is judged by the caller from jr["end"]
        live = model.apply(op)
        if o.get("st") == "skip":
            continue
        if not live:
            continue
        if o.get("st") != "ok":
            out.append({"prop": prop, "oracle": "T.exception", "at": k,
                        "msg": "%s raised %s: %s (%s)" % (op["op"], o.get("exc", o.get("st")), o.get("msg", ""),
                                                         o.get("where", ""))})
            break
        kind = op["op"]
        if kind == "qbox":
            tree = model.trees[op["t"]]
            if len(tree) > 40:
                m = overlap_matrix([e[0] for e in tree], [op["box"]])[:, 0]
                exp = {tree[i][2]: tree[i][1] for i in m.nonzero()[0]}
            else:
                exp = {e[2]: e[1] for e in tree if overlap(e[0], op["box"])}
            hits = o["hits"]
            idxs = [h[0] for h in hits]
            if len(set(idxs)) != len(idxs):
                out.append(_v(prop, "T.qbox.duplicate", k, "leaf reported twice: %s" % sorted(idxs)))
                break
            if any(h[1] == "OOB" for h in hits):
                out.append(_v(prop, "T.qbox.index", k, "returned index outside the tree's lists: %s" % idxs))
                break
            got = {}
            bad = None
            for h in hits:
                if h[2] is None or h[2] in got:
                    bad = h
                    break
                got[h[2]] = h[1]
            if bad is not None:
                out.append(_v(prop, "T.qbox.index", k, "index %s maps to no / a repeated inserted box" % bad))
                break
            missing = sorted(set(exp) - set(got))
            spurious = sorted(set(got) - set(exp))
            if missing:
                out.append(_v(prop, "T.qbox.missing", k,
                              "overlapping inserted boxes not reported: insertion numbers %s" % missing[:8]))
                break
            if spurious:
                out.append(_v(prop, "T.qbox.spurious", k,
                              "non-overlapping boxes reported: insertion numbers %s" % spurious[:8]))
                break
            wrong = sorted(i for i in got if got[i] != exp[i])
            if wrong:
                out.append(_v(prop, "T.qbox.payload", k, "external data mismatch for insertion numbers %s: got %s"
                              % (wrong[:8], [got[i] for i in wrong[:8]])))
                break
            if bool(o["flag"]) != (len(exp) > 0):
                out.append(_v(prop, "T.qbox.flag", k, "flag %s but %d overlaps" % (o["flag"], len(exp))))
                break
        elif kind == "qtree":
            ta, tb = model.trees[op["a"]], model.trees[op["b"]]
            exp = {}
            if ta and tb and len(ta) * len(tb) > 400:
                m = overlap_matrix([e[0] for e in ta], [e[0] for e in tb])
                for i, j in zip(*m.nonzero()):
                    exp[(ta[i][2], tb[j][2])] = (ta[i][1], tb[j][1])
            else:
                for ea in ta:
                    for eb in tb:
                        if overlap(ea[0], eb[0]):
                            exp[(ea[2], eb[2])] = (ea[1], eb[1])
            pairs = o["pairs"]
            ij = [(p[0], p[1]) for p in pairs]
            if len(set(ij)) != len(ij):
                out.append(_v(prop, "T.qtree.duplicate", k, "pair reported twice"))
                break
            if any(p[2] == "OOB" or p[4] == "OOB" or p[3] is None or p[5] is None for p in pairs):
                out.append(_v(prop, "T.qtree.index", k, "pair index maps to no inserted box"))
                break
            got = {}
            for p in pairs:
                got[(p[3], p[5])] = (p[2], p[4])
            if len(got) != len(pairs):
                out.append(_v(prop, "T.qtree.duplicate", k, "two index pairs map to the same inserted boxes"))
                break
            missing = sorted(set(exp) - set(got))
            spurious = sorted(set(got) - set(exp))
            if missing:
                out.append(_v(prop, "T.qtree.missing", k, "overlapping pairs not reported: %s" % missing[:6]))
                break
            if spurious:
                out.append(_v(prop, "T.qtree.spurious", k, "non-overlapping pairs reported: %s" % spurious[:6]))
                break
            wrong = sorted(p for p in got if tuple(got[p]) != tuple(exp[p]))
            if wrong:
                out.append(_v(prop, "T.qtree.payload", k, "external data mismatch for pairs %s" % wrong[:6]))
                break
            if sorted(set(i for i, _ in ij)) != sorted(o["oself"]) or sorted(set(j for _, j in ij)) != sorted(o["oother"]):
                out.append(_v(prop, "T.qtree.projection", k, "overlap_self/overlap_other are not the projections of the pairs"))
                break
            if bool(o["flag"]) != (len(exp) > 0):
                out.append(_v(prop, "T.qtree.flag", k, "flag %s but %d overlapping pairs" % (o["flag"], len(exp))))
                break
    return out


def _v(prop, oracle, at, msg):
    return {"prop": prop, "oracle": oracle, "at": at, "msg": msg}


# ------------------------------------------------------------------------------------------- bookkeeping
def signature(plan):
    """History signature: op kinds + modes + size buckets + flags (used for the distinct-histories count)."""
    sig = []
    for op in plan["ops"]:
        if op.get("sweep"):
            continue
        k = op["op"]
        if k == "ins":
            n = len(op["boxes"])
            b = 0 if n == 0 else 1 if n == 1 else 2 if n <= 4 else 3 if n <= 16 else 4 if n <= 64 else 5
            sig.append("i%d%s%s%s%s%d" % (op["t"], op.get("mode", "none")[:2], "d" if "data" in op else "",
                                         "1" if op.get("single") else "", "r" if op.get("reuse") else "", b))
        elif k == "qbox":
            sig.append("q%d" % op["t"])
        elif k == "qtree":
            sig.append("t%d%d" % (op["a"], op["b"]))
        elif k == "new":
            sig.append("n")
    return "".join(sig)


def stats(plan, jr):
    """Reach probes and fault counters for one run (all measured from the plan and the journal)."""
    s = {}

    def inc(k, n=1):
        s[k] = s.get(k, 0) + n

    model = Model()
    nonfirst = {}
    state_changed = False
    judged_after_change = False
    for k, op in enumerate(plan["ops"]):
        o = jr["obs"][k]
        if o is None:
            break
        model_before = {t: len(v) for t, v in model.trees.items()}
        model.apply(op)
        kind = op["op"]
        inc("ops")
        if kind == "ins":
            n = len(op["boxes"])
            state_changed = state_changed or n > 0
            inc("fault.rebatch")
            if n == 0:
                inc("fault.empty.zero_batch")
            if op.get("reuse"):
                inc("fault.buffer-reuse")
            if op.get("single"):
                inc("probe.insert_aabb_single", n)
            if op.get("mode") == "shuffle" and not op.get("single"):
                inc("fault.shuffle-perm")
            t = op["t"]
            if model_before.get(t, 0) > 0 and n > 0:
                inc("probe.nonfirst_batch")
                if op.get("mode") == "sort" and not op.get("single"):
                    inc("probe.nonfirst_sort_batch")
                if op.get("mode") == "shuffle" and not op.get("single"):
                    inc("probe.nonfirst_shuffle_batch")
            if "data" not in op:
                inc("probe.batch_without_external_data")
        elif kind == "qbox":
            if len(model.trees.get(op["t"], [])) == 0:
                inc("fault.empty.query_on_empty_tree")
            elif state_changed:
                judged_after_change = True
            if o.get("st") == "ok":
                inc("judged.qbox")
                inc("probe.qbox_hits", len(o.get("hits", [])))
                box = op["box"]
                tree = model.trees.get(op["t"], [])
                for e in (tree if len(tree) <= 60 else ()):
                    if overlap(e[0], box):
                        if any(e[0][i][0] == box[i][1] or e[0][i][1] == box[i][0] for i in range(3)):
                            inc("probe.touching_hit")
                        if any(e[0][i][0] == e[0][i][1] for i in range(3)):
                            inc("probe.zero_thickness_hit")
        elif kind == "qtree":
            la, lb = len(model.trees.get(op["a"], [])), len(model.trees.get(op["b"], []))
            if la == 0 or lb == 0:
                inc("fault.empty.tree_vs_empty_tree")
            elif state_changed:
                judged_after_change = True
            if op["a"] == op["b"]:
                inc("fault.self-pair")
            if o.get("st") == "ok":
                inc("judged.qtree")
                inc("probe.qtree_pairs", len(o.get("pairs", [])))
    s["nontrivial"] = 1 if (state_changed and judged_after_change) else 0
    s["boxes_max"] = max([len(v) for v in model.trees.values()] or [0])
    return s


def shrink_candidates(plan):
    """Simpler variants of a failing plan: fewer boxes per batch, simpler modes / flags, rounder numbers."""
    import copy
    ops = plan["ops"]
    for k, op in enumerate(ops):
        if op["op"] != "ins":
            continue
        n = len(op["boxes"])
        # drop halves, then single boxes
        spans = []
        if n > 2:
            spans += [(0, n // 2), (n // 2, n)]
        if n > 1:
            spans += [(i, i + 1) for i in range(n)]
        for lo, hi in spans:
            p = copy.deepcopy(plan)
            o = p["ops"][k]
            keep = [i for i in range(n) if not (lo <= i < hi)]
            o["boxes"] = [o["boxes"][i] for i in keep]
            if "data" in o:
                o["data"] = [o["data"][i] for i in keep]
            if "perm" in o:
                remap = {old: new for new, old in enumerate(keep)}
                o["perm"] = [remap[i] for i in o["perm"] if i in remap]
            yield p
        for key in ("reuse", "single", "data"):
            if key in op:
                p = copy.deepcopy(plan)
                del p["ops"][k][key]
                yield p
        if op.get("mode") not in (None, "none"):
            p = copy.deepcopy(plan)
            p["ops"][k]["mode"] = "none"
            p["ops"][k].pop("perm", None)
            yield p
        if op.get("perm") and op["perm"] != sorted(op["perm"]):
            p = copy.deepcopy(plan)
            p["ops"][k]["perm"] = sorted(op["perm"])
            yield p
    # rounder numbers
    for k, op in enumerate(ops):
        if op["op"] == "ins":
            for i, b in enumerate(op["boxes"]):
                rb = [[float(round(v)) for v in ax] for ax in b]
                if rb != b and all(ax[0] <= ax[1] for ax in rb):
                    p = copy.deepcopy(plan)
                    p["ops"][k]["boxes"][i] = rb
                    yield p
        elif op["op"] == "qbox":
            rb = [[float(round(v)) for v in ax] for ax in op["box"]]
            if rb != op["box"] and all(ax[0] <= ax[1] for ax in rb):
                p = copy.deepcopy(plan)
                p["ops"][k]["box"] = rb
                yield p
