"""World K executor: collider slots (all ten kinds + Margin), pose deliveries, support/aabb/narrow-phase ops,
cold twins, and the virtual clock (support evaluations) at the collider seam."""
import numpy as np

from distance3d import colliders as C
from distance3d import gjk, mpr, epa
from distance3d.gjk import _gjk_nesterov_accelerated as _nest
from dsim.worker import Skip, StepBudgetExceeded


def build(spec, pose):
    """A brand-new collider of the given shape constructed directly at `pose` (fresh C-contiguous float64 arrays)."""
    T = np.array(pose, dtype=float).reshape(4, 4)
    k = spec["kind"]
    if k == "sphere":
        c = C.Sphere(T[:3, 3].copy(), float(spec["radius"]))
    elif k == "ellipsoid":
        c = C.Ellipsoid(T, np.array(spec["radii"], dtype=float))
    elif k == "capsule":
        c = C.Capsule(T, float(spec["radius"]), float(spec["height"]))
    elif k == "cylinder":
        c = C.Cylinder(T, float(spec["radius"]), float(spec["length"]))
    elif k == "cone":
        c = C.Cone(T, float(spec["radius"]), float(spec["height"]))
    elif k == "box":
        c = C.Box(T, np.array(spec["size"], dtype=float))
    elif k == "disk":
        c = C.Disk(T[:3, 3].copy(), float(spec["radius"]), T[:3, 2].copy())
    elif k == "ellipse":
        c = C.Ellipse(T[:3, 3].copy(), np.ascontiguousarray(T[:3, :2].T), np.array(spec["radii"], dtype=float))
    elif k == "mesh":
        c = C.MeshGraph(T, np.array(spec["vertices"], dtype=float).reshape(-1, 3),
                        np.array(spec["triangles"], dtype=(np.int32 if spec.get("tri32") else np.int64)).reshape(-1, 3))
    elif k == "hull":
        c = C.ConvexHullVertices(np.array(spec["vertices"], dtype=float).reshape(-1, 3))
    else:
        raise ValueError(k)
    if spec.get("margin"):
        c = C.Margin(c, float(spec["margin"]))
    return c


def build_from(spec, T):
    """Like build(), but the constructor receives the given (4, 4) array object itself (not a copy)."""
    k = spec["kind"]
    if k == "ellipsoid":
        c = C.Ellipsoid(T, np.array(spec["radii"], dtype=float))
    elif k == "capsule":
        c = C.Capsule(T, float(spec["radius"]), float(spec["height"]))
    elif k == "cylinder":
        c = C.Cylinder(T, float(spec["radius"]), float(spec["length"]))
    elif k == "cone":
        c = C.Cone(T, float(spec["radius"]), float(spec["height"]))
    elif k == "box":
        c = C.Box(T, np.array(spec["size"], dtype=float))
    elif k == "mesh":
        c = C.MeshGraph(T, np.array(spec["vertices"], dtype=float).reshape(-1, 3),
                        np.array(spec["triangles"], dtype=(np.int32 if spec.get("tri32") else np.int64)).reshape(-1, 3))
    else:
        return build(spec, T)
    if spec.get("margin"):
        c = C.Margin(c, float(spec["margin"]))
    return c


def deliver(pose, how):
    """Legal deliveries of a pose (C14): a fresh C-contiguous array, or one matrix out of a stack of poses."""
    T = np.array(pose, dtype=float).reshape(4, 4)
    if how and how.startswith("stack"):
        _, k, n = how.split(":")
        k, n = int(k), int(n)
        stack = np.zeros((n, 4, 4))
        stack[:] = np.eye(4)
        stack[k] = T
        return stack[k]
    return T


class Clock:
    """Virtual clock: counts support evaluations at the collider seam; raises at the budget."""

    def __init__(self, budget):
        self.budget = budget
        self.counts = {}
        self.undo = []

    def wrap(self, c, name):
        if "support_function" in c.__dict__:  # same object passed twice: already clocked
            return
        orig = c.support_function
        counts, budget = self.counts, self.budget
        counts.setdefault(name, 0)

        def support_function(d):
            counts[name] += 1
            if counts[name] > budget:
                raise StepBudgetExceeded(dict(counts))
            return orig(d)

        c.support_function = support_function  # instance attribute; type(c) is unchanged
        self.undo.append(lambda: c.__dict__.pop("support_function", None))

    def wrap_nesterov(self):
        orig = _nest.support_function
        counts, budget = self.counts, self.budget
        counts.setdefault("nesterov", 0)

        def support_function(d, c0, c1):
            counts["nesterov"] += 1
            if counts["nesterov"] > budget:
                raise StepBudgetExceeded(dict(counts))
            return orig(d, c0, c1)

        _nest.support_function = support_function

        def undo():
            _nest.support_function = orig
        self.undo.append(undo)

    def release(self):
        for u in self.undo:
            u()
        self.undo = []


def _vec(x):
    return None if x is None else np.asarray(x, dtype=float).tolist()


def narrow(fn, a, b, budget=None):
    """Run one narrow-phase entry point; returns (result dict, clock counts)."""
    clk = None
    if budget:
        clk = Clock(budget)
        clk.wrap(a, "a")
        clk.wrap(b, "b")
        if fn.startswith("nesterov"):
            clk.wrap_nesterov()
    try:
        if fn == "jolt_distance":
            d, p, q, _ = gjk.gjk_distance_jolt(a, b)
            r = {"d": float(d), "p": _vec(p), "q": _vec(q)}
        elif fn == "jolt_intersection":
            r = {"b": bool(gjk.gjk_intersection_jolt(a, b))}
        elif fn == "original_distance":
            out = gjk.gjk_distance_original(a, b)
            r = {"d": float(out[0]), "p": _vec(out[1]), "q": _vec(out[2]), "it": int(out[4])}
        elif fn == "libccd_intersection":
            r = {"b": bool(gjk.gjk_intersection_libccd(a, b))}
        elif fn in ("nesterov_distance", "nesterov_distance_acc"):
            out = gjk.gjk_nesterov_accelerated(a, b, use_nesterov_acceleration=fn.endswith("_acc"))
            r = {"b": bool(out[0]), "d": float(max(out[1], 0.0)), "it": int(out[3])}
        elif fn == "nesterov_intersection":
            r = {"b": bool(gjk.gjk_nesterov_accelerated_intersection(a, b))}
        elif fn == "primitives_distance":
            r = {"d": float(gjk.gjk_nesterov_accelerated_primitives_distance(a, b))}
        elif fn == "primitives_distance_acc":
            out = gjk.gjk_nesterov_accelerated_primitives(a, b, use_nesterov_acceleration=True)
            r = {"b": bool(out[0]), "d": float(max(out[1], 0.0)), "it": int(out[3])}
        elif fn == "jolt_distance_noclip":
            d, p, q, _ = gjk.gjk_distance_jolt(a, b, max_distance_squared=float("inf"))
            r = {"d": float(d), "p": _vec(p), "q": _vec(q)}
        elif fn == "jolt_iterations":
            from distance3d.gjk._gjk_jolt import gjk_distance_jolt_iterations
            r = {"it": int(gjk_distance_jolt_iterations(a, b))}
        elif fn == "original_iterations":
            from distance3d.gjk._gjk_original import gjk_distance_iterations
            r = {"it": int(gjk_distance_iterations(a, b))}
        elif fn == "nesterov_iterations":
            from distance3d.gjk._gjk_nesterov_accelerated import gjk_nesterov_accelerated_iterations
            r = {"it": int(gjk_nesterov_accelerated_iterations(a, b))}
        elif fn == "primitives_intersection":
            r = {"b": bool(gjk.gjk_nesterov_accelerated_primitives_intersection(a, b))}
        elif fn == "mpr_intersection":
            r = {"b": bool(mpr.mpr_intersection(a, b))}
        elif fn == "mpr_penetration":
            i, depth, pdir, pos = mpr.mpr_penetration(a, b)
            r = {"b": bool(i), "depth": None if depth is None else float(depth), "dir": _vec(pdir), "pos": _vec(pos)}
        elif fn in ("epa", "epa_big"):
            d, p, q, simplex = gjk.gjk_distance_jolt(a, b)
            r = {"d": float(d)}
            if d == 0.0 and simplex is not None:
                # rows GJK never wrote are zero thanks to the np.empty seam (in production they are uninitialised)
                partial = bool(np.any(np.all(np.asarray(simplex) == 0.0, axis=1)))
                r["partial_simplex"] = partial
                try:
                    if fn == "epa_big":  # the optional capacity arguments raised (smooth shapes need more faces)
                        mtv, faces, success = epa.epa(simplex, a, b, max_iter=200, max_faces=512)
                    else:
                        mtv, faces, success = epa.epa(simplex, a, b)
                except Exception as ex:
                    ex.dsim_ctx = {"partial_simplex": partial}
                    raise
                r.update({"mtv": _vec(mtv), "success": bool(success), "faces": int(len(faces))})
        else:
            raise ValueError("unknown narrow-phase entry point %r" % fn)
    finally:
        if clk is not None:
            clk.release()
    return r, (dict(clk.counts) if clk is not None else None)


def clearance(a, b):
    """The pair's own clearance (gap, or penetration depth when overlapping) - the yardstick of the grazing band.
    None when it cannot be established (then booleans are not compared)."""
    try:
        d = gjk.gjk_distance_jolt(a, b, max_distance_squared=float("inf"))[0]
        if d > 0.0:
            return float(d)
        i, depth, _, _ = mpr.mpr_penetration(a, b)
        if i and depth is not None and np.isfinite(depth):
            return float(depth)
    except Exception:
        pass
    return None


class Exec:
    def __init__(self, cfg):
        self.slots = {}
        self.budget = int(cfg.get("support_budget", 0)) or None

    def close(self):
        self.slots.clear()

    def _slot(self, s):
        e = self.slots.get(s)
        if e is None:
            raise Skip()
        return e

    def _twin(self, e):
        return build(e["spec"], e["pose"])

    def run(self, op):
        k = op["op"]
        if k == "new":
            e = {"spec": op["spec"], "pose": op["pose"]}
            if op.get("stack"):
                # the caller's own stack of poses (never written to by the caller again); item 0 is handed to the
                # constructor, items are handed to update_pose later ("pstack:k")
                e["pstack"] = np.array(op["stack"], dtype=float).reshape(-1, 4, 4)
                e["obj"] = build_from(op["spec"], e["pstack"][0])
            elif op.get("share") is not None and op["share"] in self.slots and "ctor" in self.slots[op["share"]]:
                e["ctor"] = self.slots[op["share"]]["ctor"]  # the very same array object as the other collider's
                e["obj"] = build_from(op["spec"], e["ctor"])
            else:
                e["ctor"] = np.array(op["pose"], dtype=float).reshape(4, 4)
                e["obj"] = build_from(op["spec"], e["ctor"])
            self.slots[op["s"]] = e
            return {}
        if k == "pose":
            e = self._slot(op["s"])
            if (op.get("how") or "").startswith("pstack"):
                if "pstack" not in e:
                    raise Skip()
                T = e["pstack"][int(op["how"].split(":")[1])]
                T2 = T
            elif op.get("how") == "reuse":
                # this collider's own slot of the caller's pose stack, refilled in place and handed over again
                if "buf" not in e:
                    e["stack"] = np.zeros((3, 4, 4))
                    e["stack"][:] = np.eye(4)
                    e["buf"] = e["stack"][1]
                e["buf"][:] = np.array(op["pose"], dtype=float).reshape(4, 4)
                T = e["buf"]
                T2 = e["buf"]
            else:
                T = deliver(op["pose"], op.get("how"))
                T2 = None
            e["obj"].update_pose(T)
            if op.get("dup"):
                e["obj"].update_pose(T2 if T2 is not None else deliver(op["pose"], op.get("how")))
            e["pose"] = op["pose"]
            return {}
        if k == "sup":
            e = self._slot(op["s"])
            d = np.array(op["d"], dtype=float)
            out = {"p": _vec(e["obj"].support_function(d))}
            if op.get("twin"):
                out["tw"] = _vec(self._twin(e).support_function(np.array(op["d"], dtype=float)))
            return out
        if k == "warm":
            e = self._slot(op["s"])
            for d in op["dirs"]:
                e["obj"].support_function(np.array(d, dtype=float))
            return {"n": len(op["dirs"])}
        if k in ("aabb", "center", "first", "c2o"):
            e = self._slot(op["s"])
            meth = {"aabb": "aabb", "center": "center", "first": "first_vertex", "c2o": "collider2origin"}[k]
            out = {"v": _vec(getattr(e["obj"], meth)())}
            if op.get("twin"):
                out["tw"] = _vec(getattr(self._twin(e), meth)())
            return out
        if k == "narrow":
            ea, eb = self._slot(op["a"]), self._slot(op["b"])
            r, clk = narrow(op["fn"], ea["obj"], eb["obj"], self.budget)
            out = {"r": r, "clk": clk}
            if op.get("twin"):
                ta = self._twin(ea)
                tb = ta if op["a"] == op["b"] else self._twin(eb)
                try:
                    out["tw"] = narrow(op["fn"], ta, tb, self.budget)[0]
                    if "b" in out["tw"] and "d" not in out["tw"] and "depth" not in out["tw"]:
                        out["tw"]["clr"] = clearance(self._twin(ea), self._twin(eb))
                except StepBudgetExceeded:
                    out["tw"] = {"budget": True}
                except Exception as ex:
                    out["tw"] = {"exc": type(ex).__name__}
            return out
        raise ValueError("unknown op %r" % k)
