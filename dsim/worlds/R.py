"""World R: BVH over a kinematic tree with a history of joint / pose changes. Generator, model and oracles for C06."""
import math

import numpy as np

from .. import geom
from . import K as KW

WORLD = "R"


def _fmt(v):
    return " ".join(repr(float(x)) for x in v)


def gen_robot(rng, prefix, tier):
    """URDF text for a seeded kinematic tree (chains and branching trees) + the collider spec of every collision frame."""
    n = rng.randint(2, 6 if tier == "quick" else 9)
    branching = rng.chance(0.6)
    parents = [None]
    for i in range(1, n):
        parents.append(rng.randrange(i) if branching else i - 1)
    scale = rng.choice([0.1, 0.3, 1.0, 1.0, 3.0])
    links, joints, geoms, jinfo = [], [], {}, []
    for i in range(n):
        name = "%s%d" % (prefix, i)
        cols = []
        ncol = rng.choice([0, 1, 1, 1, 2])
        for c in range(ncol):
            kind = rng.choice(["sphere", "box", "cylinder"])
            xyz = [rng.gauss(0, 0.3 * scale) if rng.chance(0.7) else 0.0 for _ in range(3)]
            rpy = [rng.uniform(-math.pi, math.pi) if rng.chance(0.5) else 0.0 for _ in range(3)]
            if kind == "sphere":
                r = scale * rng.choice([0.1, 0.2, 0.3, 0.5])
                g = '<sphere radius="%r"/>' % r
                spec = {"kind": "sphere", "radius": r}
            elif kind == "box":
                s = [scale * rng.choice([0.1, 0.2, 0.4, 0.8]) for _ in range(3)]
                g = '<box size="%s"/>' % _fmt(s)
                spec = {"kind": "box", "size": s}
            else:
                r = scale * rng.choice([0.05, 0.1, 0.2])
                ln = scale * rng.choice([0.2, 0.5, 1.0])
                g = '<cylinder radius="%r" length="%r"/>' % (r, ln)
                spec = {"kind": "cylinder", "radius": r, "length": ln}
            cols.append('<collision><origin xyz="%s" rpy="%s"/><geometry>%s</geometry></collision>' % (
                _fmt(xyz), _fmt(rpy), g))
            geoms["collision:%s/%d" % (name, c)] = spec
        links.append('<link name="%s">%s</link>' % (name, "".join(cols)))
        if i > 0:
            jt = rng.choice(["revolute", "revolute", "continuous", "prismatic", "fixed"])
            xyz = [rng.gauss(0, 0.5 * scale) for _ in range(3)]
            rpy = [rng.uniform(-math.pi, math.pi) if rng.chance(0.4) else 0.0 for _ in range(3)]
            axis = rng.choice([[1.0, 0.0, 0.0], [0.0, 1.0, 0.0], [0.0, 0.0, 1.0], rng.unit()])
            lo, hi = -rng.uniform(0.1, 3.0), rng.uniform(0.1, 3.0)
            if jt == "prismatic":
                lo, hi = lo * scale * 0.3, hi * scale * 0.3
            lim = '<limit lower="%r" upper="%r"/>' % (lo, hi) if jt in ("revolute", "prismatic") else ""
            jn = "%sj%d" % (prefix, i)
            joints.append('<joint name="%s" type="%s"><parent link="%s%d"/><child link="%s"/><origin xyz="%s" '
                          'rpy="%s"/><axis xyz="%s"/>%s</joint>' % (jn, jt, prefix, parents[i], name, _fmt(xyz),
                                                                   _fmt(rpy), _fmt(axis), lim))
            if jt != "fixed":
                jinfo.append({"name": jn, "type": jt, "lo": lo if jt != "continuous" else -math.pi,
                              "hi": hi if jt != "continuous" else math.pi})
    if rng.chance(0.5):  # fault `order`: links (hence colliders) are declared / registered in a seeded order
        rng.shuffle(links)
        rng.shuffle(joints)
    urdf = '<?xml version="1.0"?><robot name="%srobot">%s%s</robot>' % (prefix, "".join(links), "".join(joints))
    return {"urdf": urdf, "base": "%s0" % prefix, "geoms": geoms, "joints": jinfo, "links": ["%s%d" % (prefix, i) for i in range(n)],
            "scale": scale, "branching": bool(branching and n > 2)}


FREE_KINDS = ["capsule", "cone", "ellipsoid", "mesh", "box", "sphere", "cylinder"]


def gen(rng, tier="quick", prop="C06"):
    cfg = {"faults": sorted(f for f in ("order", "dup", "stale-read", "free", "two-bvh", "base-move")
                            if rng.chance(0.6)),
           "kinds": sorted(rng.sample(FREE_KINDS, rng.choice([1, 2, 4, 7]))), "margins": False, "needles": False,
           "degenerate": False, "lattice": False}
    cfg["int_frames"] = rng.chance(0.3)  # frames are Hashable: free colliders registered under integer ids
    if prop == "C19":
        cfg["support_budget"] = 1000
    faults = set(cfg["faults"])
    ops = []
    nb = 2 if "two-bvh" in faults else 1
    robots = []
    frames = {}
    free_parent = {}
    for b in range(nb):
        rob = gen_robot(rng, "abcdef"[b], tier)
        robots.append(rob)
        op = {"op": "robot", "b": b, "urdf": rob["urdf"], "base": rob["base"], "geoms": rob["geoms"]}
        if "base-move" in faults and rng.chance(0.5):
            op["base_pose"] = rng.pose(rng.choice([0.0, 1.0, 10.0]))
        if rng.chance(0.08):
            op["empty_whitelists"] = True
        ops.append(op)
        frames[b] = sorted(rob["geoms"])
    nfree = 0

    def gen_free(b):
        nonlocal nfree
        rob = robots[b]
        spec = KW.gen_spec(rng, cfg, tier)
        sc = rob["scale"]
        # keep free colliders of the robot's size so that they interact with it
        spec = _rescale(spec, sc * rng.choice([0.2, 0.5, 1.0]))
        frame = (1000 + nfree) if cfg.get("int_frames") else "free%d" % nfree
        nfree += 1
        mine = [f for (bb, f) in free_parent if bb == b]
        replace = bool(mine) and rng.chance(0.1)
        if replace:
            frame = rng.choice(mine)  # add_collider for a frame that already has a collider replaces it
            nfree -= 1
        parent = "origin" if rng.chance(0.6) else rng.choice(rob["links"])
        if replace:
            parent = free_parent[(b, frame)]
        T = np.eye(4)
        T[:3, :3] = rng.rot()
        T[:3, 3] = [rng.gauss(0, sc) for _ in range(3)]
        others = [f for f in frames[b] if f != frame]
        wl = [frame] + (rng.sample(others, rng.randint(0, min(3, len(others)))) if others and rng.chance(0.5) else [])
        wl_into = rng.sample(others, rng.randint(0, min(2, len(others)))) if others and rng.chance(0.3) else []
        op = {"op": "free", "b": b, "frame": frame, "parent": parent, "spec": spec, "pose": (T + 0.0).tolist(),
              "wl": wl, "wl_into": wl_into}
        if replace:
            op["replace"] = True
        elif mine and spec["kind"] != "hull" and rng.chance(0.15):
            op["share"] = rng.choice(mine)  # constructed from the very array object another collider was built from
        ops.append(op)
        if frame not in frames[b]:
            frames[b] = sorted(frames[b] + [frame], key=str)
        free_parent[(b, frame)] = parent

    def gen_change(b):
        rob = robots[b]
        r = rng.random()
        sl = set()
        for q in sliver_queries.get(b, []):
            sl.update(q["sliver_pair"])
        frees = [f for (bb, f) in free_parent if bb == b and f not in sl]
        if r < 0.7 and rob["joints"]:
            j = rng.choice(rob["joints"])
            c = rng.random()
            if c < 0.8:
                v = rng.uniform(j["lo"], j["hi"])
            elif c < 0.9:
                v = rng.choice([j["lo"], j["hi"], 0.0])
            else:
                v = rng.uniform(-10, 10)  # outside the limits: the manager clips
            ops.append({"op": "joint", "b": b, "j": j["name"], "v": v})
        elif r < 0.85 and frees:
            f = rng.choice(frees)
            T = np.eye(4)
            T[:3, :3] = rng.rot()
            T[:3, 3] = [rng.gauss(0, rob["scale"]) for _ in range(3)]
            mv = {"op": "move", "b": b, "frame": f, "pose": (T + 0.0).tolist()}
            if rng.chance(0.4):
                mv["inplace"] = True  # the caller rewrites the array it registered with add_transform
            ops.append(mv)
        elif r < 0.92 and rob["geoms"]:
            # re-mount a collision geometry on its link (add_transform of the geometry frame relative to the link)
            f = rng.choice(sorted(rob["geoms"]))
            link = f.split(":", 1)[1].rsplit("/", 1)[0]
            T = np.eye(4)
            T[:3, :3] = rng.rot()
            T[:3, 3] = [rng.gauss(0, 0.3 * rob["scale"]) for _ in range(3)]
            ops.append({"op": "remount", "b": b, "frame": f, "link": link, "pose": (T + 0.0).tolist()})
        elif "base-move" in faults:
            ops.append({"op": "base", "b": b, "pose": rng.pose(rng.choice([0.0, 1.0, 10.0]))})
        elif rob["joints"]:
            j = rng.choice(rob["joints"])
            ops.append({"op": "joint", "b": b, "j": j["name"], "v": rng.uniform(j["lo"], j["hi"])})

    def gen_query(b):
        rob = robots[b]
        r = rng.random()
        if r < 0.3:
            spec = _rescale(KW.gen_spec(rng, cfg, tier), rob["scale"] * rng.choice([0.2, 1.0, 3.0]))
            T = np.eye(4)
            T[:3, :3] = rng.rot()
            T[:3, 3] = [rng.gauss(0, rob["scale"]) for _ in range(3)]
            spec, pose = KW.place_hull(spec, (T + 0.0).tolist())
            wl = rng.sample(frames[b], rng.randint(0, min(2, len(frames[b])))) if frames[b] and rng.chance(0.4) else []
            ops.append({"op": "qcol", "b": b, "spec": spec, "pose": pose, "wl": wl})
        elif r < 0.5:
            ops.append({"op": "qself", "b": b})
        elif r < 0.6 and nb > 1:
            ops.append({"op": "qother", "b": b, "o": 1 - b})
        elif r < 0.85:
            ops.append({"op": "detect", "b": b})
        else:
            ops.append({"op": "detect_any", "b": b})
        if prop == "C19" and ops[-1]["op"] not in ("detect", "detect_any"):
            ops[-1] = {"op": rng.choice(["detect", "detect_any"]), "b": b}

    sliver_queries = {}

    def gen_sliver(b):
        """Two sphere colliders whose AABB faces nearly coincide (the second sticks out by a hair) and a query sphere
        whose AABB touches exactly that hair: the broad phase must still report the second one."""
        nonlocal nfree
        import math as _m
        c = [0.5 * rng.randint(-6, 6) for _ in range(3)]
        r = rng.choice([0.5, 1.0])
        i = rng.randrange(3)
        step = rng.choice(["ulp", 1e-12, 4e-10])
        c2 = list(c)
        c2[i] = _m.nextafter(c[i], _m.inf) if step == "ulp" else c[i] + step * max(1.0, abs(c[i]))
        hi = c2[i] + r
        qr = 1.0
        q = list(c)
        q[i] = hi + qr
        for _ in range(4):
            if q[i] - qr == hi:
                break
            q[i] = _m.nextafter(q[i], _m.inf if q[i] - qr < hi else -_m.inf)
        if q[i] - qr != hi or not (c[i] + r < hi):
            return
        names = []
        for cc in (c, c2):
            frame = (1000 + nfree) if cfg.get("int_frames") else "free%d" % nfree
            nfree += 1
            T = np.eye(4)
            T[:3, 3] = cc
            ops.append({"op": "free", "b": b, "frame": frame, "parent": "origin", "spec": {"kind": "sphere", "radius": r},
                        "pose": T.tolist(), "wl": [frame], "wl_into": []})
            frames[b] = sorted(frames[b] + [frame], key=str)
            free_parent[(b, frame)] = "origin"
            names.append(frame)
        Tq = np.eye(4)
        Tq[:3, 3] = q
        sliver_queries.setdefault(b, []).append({"op": "qcol", "b": b, "spec": {"kind": "sphere", "radius": qr},
                                                 "pose": Tq.tolist(), "wl": [], "sliver": names[1],
                                                 "sliver_pair": names})

    if "free" in faults:
        for b in range(nb):
            for _ in range(rng.randint(0, 3)):
                gen_free(b)
            if rng.chance(0.3):
                gen_sliver(b)
    nsteps = rng.randint(3, 10) if tier == "quick" else rng.randint(5, 30)
    for _ in range(nsteps):
        b = rng.randrange(nb)
        for _ in range(rng.randint(1, 4)):
            gen_change(b)
        if "stale-read" in faults and rng.chance(0.3):
            gen_query(b)
        if "free" in faults and rng.chance(0.1):
            gen_free(b)
        op = {"op": "update", "b": b}
        if "dup" in faults and rng.chance(0.3):
            op["dup"] = True
        ops.append(op)
        for _ in range(rng.randint(0, 3)):
            gen_query(rng.randrange(nb) if rng.chance(0.3) else b)
        if sliver_queries.get(b) and rng.chance(0.6):
            ops.append(dict(rng.choice(sliver_queries[b])))
    return {"world": WORLD, "cfg": cfg, "ops": ops}


def _rescale(spec, s):
    spec = dict(spec)
    k = spec["kind"]

    def f(x):
        return float(min(100.0, max(0.01, x)))
    if k in ("sphere", "disk"):
        spec["radius"] = f(s * 0.3)
    elif k == "ellipsoid":
        m = max(spec["radii"])
        spec["radii"] = [f(r / m * s * 0.4) for r in spec["radii"]]
    elif k == "capsule":
        m = max(spec["radius"], spec["height"])
        spec["radius"], spec["height"] = f(spec["radius"] / m * s * 0.4), f(spec["height"] / m * s * 0.6)
    elif k == "cylinder":
        m = max(spec["radius"], spec["length"])
        spec["radius"], spec["length"] = f(spec["radius"] / m * s * 0.4), f(spec["length"] / m * s * 0.6)
    elif k == "cone":
        m = max(spec["radius"], spec["height"])
        spec["radius"], spec["height"] = f(spec["radius"] / m * s * 0.4), f(spec["height"] / m * s * 0.6)
    elif k == "box":
        m = max(spec["size"])
        spec["size"] = [f(x / m * s * 0.6) for x in spec["size"]]
    elif k == "ellipse":
        m = max(spec["radii"])
        spec["radii"] = [f(r / m * s * 0.4) for r in spec["radii"]]
    elif k in ("mesh", "hull"):
        V = np.array(spec["vertices"])
        ext = float(np.max(np.linalg.norm(V - V.mean(axis=0), axis=1))) or 1.0
        spec["vertices"] = ((V - (V.mean(axis=0) if k == "mesh" else 0.0)) * (s * 0.4 / ext) + 0.0).tolist()
    return spec


# ----------------------------------------------------------------------------------------------- oracle
def _v(prop, oracle, at, msg):
    return {"prop": prop, "oracle": oracle, "at": at, "msg": msg}


class Model:
    def __init__(self):
        self.b = {}

    def apply(self, op):
        k = op["op"]
        if k == "robot":
            self.b[op["b"]] = {"pending": False, "specs": dict(op["geoms"]), "free": {}}
            return True
        e = self.b.get(op.get("b"))
        if e is None:
            return False
        if k == "free":
            e["specs"][str(op["frame"])] = op["spec"]
            e["free"][str(op["frame"])] = op.get("parent", "origin")
            if op.get("share") is not None or op.get("replace"):
                # built at another collider's pose / the replaced collider's leaf is still in the tree: settled by
                # the next update_collider_poses
                e["pending"] = True
            # the collider is built at the manager's current transform and inserted at once; the other colliders'
            # pending state is unchanged
            return True
        if k == "move":
            if str(op["frame"]) not in e["free"]:
                return False
            e["pending"] = True
        elif k in ("joint", "base", "remount"):
            e["pending"] = True
        elif k == "update":
            e["pending"] = False
        elif k == "qother":
            return op["o"] in self.b
        return True


def _ov(a, b):
    return all(a[i][0] <= b[i][1] and a[i][1] >= b[i][0] for i in range(3))


def _check_pose(prop, k, specs, state):
    for f, s in state.items():
        c2o, tm = np.array(s["c2o"]), np.array(s["tm"])
        L = max(1.0, float(np.max(np.abs(tm[:3, 3]))))
        if specs.get(f, {}).get("kind") == "sphere":
            err = float(np.max(np.abs(c2o[:3, 3] - tm[:3, 3])))
        else:
            err = float(np.max(np.abs(c2o - tm)))
        if not err <= 1e-12 * L:
            return _v(prop, "R.pose", k, "after update_collider_poses the pose of collider %s differs from the "
                                         "transform manager's current transform by %.3g" % (f, err))
        if "sup" in s and f in specs:
            a, b = np.array(s["sup"]), np.array(s["sup_tw"])
            Ls = geom.scale_L([(specs[f], s["tm"])])
            bad = ~((np.abs(a - b) <= 1e-9 * Ls) | (np.isnan(a) & np.isnan(b)))
            if np.any(bad):
                return _v(prop, "R.pose.geometry", k, "after update_collider_poses collider %s (%s) reports the manager's "
                          "transform as its pose but its support values along the axes differ from those of a fresh "
                          "collider at that transform by %.3g" % (f, specs[f]["kind"], float(np.nanmax(np.abs(a - b)))))
    return None


def _pair_verdicts(specs, state, pairs):
    """clearly colliding / clearly apart / don't care per unordered pair (the narrow phase is the property's yardstick)."""
    out = {}
    for rec in pairs:
        f, g = rec["f"], rec["g"]
        L = geom.scale_L([(specs[f], state[f]["tm"]), (specs[g], state[g]["tm"])]) if f in specs and g in specs else 1.0
        verdict = "dontcare"
        if "exc" not in rec:
            if rec["jolt"] and rec["libccd"] and rec["mpr"] and rec.get("depth") is not None and rec["depth"] > 1e-3 * L \
                    and rec["dist"] == 0.0:
                verdict = "colliding"
            elif not rec["jolt"] and not rec["libccd"] and not rec["mpr"] and rec["dist"] > 1e-3 * L:
                verdict = "apart"
        out[(f, g)] = out[(g, f)] = verdict
    return out


def _aabb_tags(specs, state, frames):
    """Which of the given frames have a journalled AABB that does not enclose the shape (per closed-form support values)?
    Used to attribute a missed detection to a defective aabb() of one collider kind (known finding F2)."""
    tags = set()
    for f in frames:
        spec = specs.get(f)
        if spec is None or f not in state:
            continue
        T = state[f]["tm"]
        box = state[f]["aabb"]
        L = geom.scale_L([(spec, T)])
        for i in range(3):
            d = np.zeros(3)
            d[i] = 1.0
            try:
                hi = geom.support_value(spec, T, d)
                lo = -geom.support_value(spec, T, -d)
            except Exception:
                continue
            if not (box[i][1] >= hi - 1e-9 * L and box[i][0] <= lo + 1e-9 * L):
                tags.add("aabb_too_small:" + spec["kind"])
    return sorted(tags)


def judge_c19(plan, jr, prop="C19"):
    """C19 on World R: self_collision.detect / detect_any are narrow-phase entry points. Every gjk call they make runs
    under the support-evaluation clock; any exception, budget overrun or non-termination is a violation (also for
    stale reads: the colliders are valid whatever the tree looks like)."""
    for k, op in enumerate(plan["ops"]):
        o = jr["obs"][k]
        if o is None:
            break
        if op["op"] not in ("detect", "detect_any") or o.get("st") == "skip":
            continue
        st = o.get("st")
        if st == "budget":
            return [_v(prop, "R.clock", k, "%s: a narrow-phase call exceeded the support-evaluation budget: %s" % (op["op"], o.get("clock")))]
        if st != "ok":
            return [_v(prop, "R.detect.exception", k, "%s raised %s: %s (%s)" % (op["op"], o.get("exc", st), o.get("msg"), o.get("where")))]
    return []


def judge(plan, jr, prop="C06"):
    if prop == "C19":
        return judge_c19(plan, jr, prop)
    model = Model()
    obs = jr["obs"]
    for k, op in enumerate(plan["ops"]):
        o = obs[k]
        if o is None:
            break
        live = model.apply(op)
        if o.get("st") == "skip" or not live:
            continue
        kind = op["op"]
        e = model.b.get(op.get("b"))
        pending = e["pending"] if e else False
        if kind == "qother":
            pending = pending or model.b[op["o"]]["pending"]
        if o.get("st") != "ok":
            if kind in ("qcol", "qself", "qother", "detect", "detect_any") and pending:
                continue  # stale reads are not judged
            return [_v(prop, "R.exception", k, "%s raised %s: %s (%s)" % (kind, o.get("exc", o.get("st")), o.get("msg"),
                                                                         o.get("where")))]
        if kind not in ("qcol", "qself", "qother", "detect", "detect_any") or pending:
            continue
        specs = e["specs"]
        state = o["state"]
        v = _check_pose(prop, k, specs, state)
        if v is None and kind == "qother":
            v = _check_pose(prop, k, model.b[op["o"]]["specs"], o["state_o"])
        if v:
            return [v]
        if set(state) != set(specs):
            return [_v(prop, "R.frames", k, "colliders known to the BVH %s differ from the registered ones %s" % (
                sorted(state), sorted(specs)))]
        if kind == "qcol":
            exp = sorted(f for f, s in state.items() if _ov(s["aabb"], o["q"]) and f not in {str(x) for x in op.get("wl", [])})
            if sorted(o["got"]) != exp or len(set(o["got"])) != len(o["got"]):
                return [_v(prop, "R.broad.collider", k, "aabb_overlapping_colliders returned %s, brute force over the "
                           "current AABBs gives %s" % (sorted(o["got"]), exp))]
        elif kind == "qself":
            exp = {frozenset((f, g)) for f in state for g in state if f < g and _ov(state[f]["aabb"], state[g]["aabb"])}
            got_list = [tuple(p) for p in o["pairs"]]
            got = {frozenset(p) for p in got_list}
            if len(set(got_list)) != len(got_list) or got != exp or any(p[0] == p[1] for p in got_list):
                return [_v(prop, "R.broad.self", k, "aabb_overlapping_with_self: missing %s, spurious %s, duplicates %s"
                           % (sorted(map(sorted, exp - got))[:5], sorted(map(sorted, got - exp))[:5],
                              len(got_list) - len(set(got_list))))]
        elif kind == "qother":
            so = o["state_o"]
            exp = {(f, g) for f in state for g in so if _ov(state[f]["aabb"], so[g]["aabb"])}
            got_list = [tuple(p) for p in o["pairs"]]
            if len(set(got_list)) != len(got_list) or set(got_list) != exp:
                return [_v(prop, "R.broad.other", k, "aabb_overlapping_with_other_bvh: missing %s, spurious %s" % (
                    sorted(exp - set(got_list))[:5], sorted(set(got_list) - exp)[:5]))]
        if kind in ("qcol", "qself", "qother") and not o.get("payload_ok", True):
            return [_v(prop, "R.broad.payload", k, "a reported frame does not map to the collider registered for it")]
        if kind in ("detect", "detect_any"):
            wl = {f: set(x) for f, x in o["wl"].items()}
            verdict = _pair_verdicts(specs, state, o["pairs"])
            fr = sorted(state)
            must = {f for f in fr if any(g != f and g not in wl.get(f, set()) and verdict.get((f, g)) == "colliding"
                                         for g in fr)}
            may = {f for f in fr if any(g != f and verdict.get((f, g)) != "apart"
                                        and (g not in wl.get(f, set()) or f not in wl.get(g, set())) for g in fr)}
            if kind == "detect":
                c = o["contacts"]
                if set(c) != set(fr):
                    return [_v(prop, "R.detect.keys", k, "detect() reports frames %s, colliders are %s" % (sorted(c), fr))]
                marked = {f for f, val in c.items() if val}
                if not must <= marked:
                    v = _v(prop, "R.detect.missed", k, "detect() does not mark %s although the all-pairs narrow "
                           "phase finds it clearly colliding with a frame outside its whitelist" % sorted(must - marked))
                    involved = set()
                    for f in must - marked:
                        involved.add(f)
                        involved.update(g for g in fr if verdict.get((f, g)) == "colliding")
                    v["tags"] = _aabb_tags(specs, state, involved)
                    return [v]
                if not marked <= may:
                    return [_v(prop, "R.detect.spurious", k, "detect() marks %s although every frame it could collide "
                               "with is clearly apart or mutually whitelisted" % sorted(marked - may))]
            else:
                if must and not o["any"]:
                    v = _v(prop, "R.detect_any.missed", k, "detect_any() is False although %s clearly collide(s) "
                           "with a frame outside its whitelist" % sorted(must))
                    involved = set(must)
                    for f in must:
                        involved.update(g for g in fr if verdict.get((f, g)) == "colliding")
                    v["tags"] = _aabb_tags(specs, state, involved)
                    return [v]
                if not may and o["any"]:
                    return [_v(prop, "R.detect_any.spurious", k, "detect_any() is True although no frame can collide")]
    return []


# ------------------------------------------------------------------------------------------- bookkeeping
def signature(plan):
    sig = []
    for op in plan["ops"]:
        k = op["op"]
        if k == "robot":
            sig.append("R%d:%d:%s" % (op["b"], len(op["geoms"]), op["urdf"].count("<joint")))
            sig.append("".join(sorted(s["kind"][0] for s in op["geoms"].values())))
        elif k == "free":
            sig.append("F%s%s%s%s" % (op["spec"]["kind"][:2], "o" if op.get("parent") == "origin" else "l",
                                      "r" if op.get("replace") else "", "s" if op.get("share") is not None else ""))
        elif k == "joint":
            sig.append("j" + op["j"][1:])
        elif k == "update":
            sig.append("U" + ("d" if op.get("dup") else ""))
        else:
            sig.append(k[:2] + str(op.get("b", "")))
    return "".join(sig)


def stats(plan, jr):
    s = {}

    def inc(k, n=1):
        s[k] = s.get(k, 0) + n

    model = Model()
    changed = judged = False
    fault = False
    for k, op in enumerate(plan["ops"]):
        o = jr["obs"][k]
        if o is None:
            break
        live = model.apply(op)
        if not live or o.get("st") == "skip":
            continue
        inc("ops")
        kind = op["op"]
        e = model.b.get(op.get("b"))
        if kind == "robot" and o.get("st") == "ok":
            wl = o.get("wl", {})
            asym = any(f not in wl.get(g, []) for f in wl for g in wl[f] if g in wl)
            if asym:
                inc("probe.asymmetric_generated_whitelist")
            if op.get("base_pose") is not None:
                inc("fault.base-move.initial")
            if op.get("empty_whitelists"):
                inc("probe.whitelists_self_only")
            inc("colliders_from_urdf", len(o.get("frames", [])))
        elif kind == "free":
            inc("fault.order.free_collider_added")
            fault = True
            if op.get("replace"):
                inc("fault.order.collider_replaced")
            if op.get("share") is not None:
                inc("fault.pose-delivery.shared_constructor_array")
            if not isinstance(op["frame"], str):
                inc("probe.integer_frame_id")
            if op.get("parent") != "origin":
                inc("probe.free_collider_attached_to_link")
            if op.get("wl_into") or len(op.get("wl", [])) > 1:
                inc("probe.asymmetric_seeded_whitelist")
        elif kind in ("joint", "move", "base", "remount"):
            changed = True
            if kind == "remount":
                inc("fault.order.geometry_remounted")
            if kind == "base":
                inc("fault.base-move")
        elif kind == "update":
            if op.get("dup"):
                inc("fault.dup")
                fault = True
        elif kind in ("qcol", "qself", "qother", "detect", "detect_any"):
            pend = e["pending"] or (kind == "qother" and model.b[op["o"]]["pending"])
            if pend:
                inc("fault.stale-read")
                fault = True
            elif o.get("st") == "ok":
                inc("judged." + kind)
                if changed:
                    judged = True
                if kind in ("detect", "detect_any") and "clk_calls" in o:
                    inc("judged.detect_gjk_calls_clocked", o["clk_calls"])
                    s["max.support_evals.detect"] = max(s.get("max.support_evals.detect", 0), o["clk_max"])
                if kind in ("detect", "detect_any"):
                    specs = e["specs"]
                    verdict = _pair_verdicts(specs, o["state"], o["pairs"])
                    vals = list(verdict.values())
                    inc("probe.pairs_clearly_colliding", vals.count("colliding") // 2)
                    inc("probe.pairs_clearly_apart", vals.count("apart") // 2)
                    inc("probe.pairs_dontcare", vals.count("dontcare") // 2)
                    if kind == "detect" and any(o["contacts"].values()):
                        inc("probe.detect_marked_something")
                    if kind == "detect_any" and o["any"]:
                        inc("probe.detect_any_true")
                if kind == "qself":
                    inc("probe.qself_pairs", len(o["pairs"]))
                if kind == "qcol":
                    inc("probe.qcol_hits", len(o["got"]))
                    if op.get("sliver"):
                        inc("probe.sliver_query")
                        if str(op["sliver"]) in o["got"]:
                            inc("probe.sliver_query_hit_by_touching_face")
                if kind == "qother":
                    inc("probe.qother_pairs", len(o["pairs"]))
    s["nontrivial"] = 1 if changed and judged else 0
    if plan.get("prop") == "C19":
        s["nontrivial"] = 1 if s.get("judged.detect_gjk_calls_clocked", 0) > 0 else 0
    if not fault:
        s["fault_free"] = 1
    return s
