"""World H executor: hydroelastic RigidBody slots. contact_forces / find_contact_surface re-express body 1 in body 2's
frame *in place*; the executor keeps, next to every live body, the body's world-frame geometry (plain numpy, fixed at
creation / update_pose) from which fresh twins are built in arbitrary body frames."""
import numpy as np

from distance3d import hydroelastic_contact as hc
from dsim.worker import Skip


def make_body(kind, p, pose):
    T = np.array(pose, dtype=float)
    RB = hc.RigidBody
    if kind == "sphere":
        b = RB.make_sphere(T[:3, 3].copy(), float(p["radius"]), int(p["order"]))
    elif kind == "ellipsoid":
        b = RB.make_ellipsoid(T, np.array(p["radii"], dtype=float), int(p["order"]))
    elif kind == "cube":
        b = RB.make_cube(T, float(p["size"]))
    elif kind == "box":
        b = RB.make_box(T, np.array(p["size"], dtype=float))
    elif kind == "cylinder":
        b = RB.make_cylinder(T, float(p["radius"]), float(p["length"]), float(p["hint"]))
    elif kind == "capsule":
        b = RB.make_capsule(T, float(p["radius"]), float(p["height"]), float(p["hint"]))
    else:
        raise ValueError(kind)
    return b


def world_points(T, V):
    T = np.asarray(T, dtype=float)
    return V @ T[:3, :3].T + T[:3, 3]


def rot(M, v):
    return np.asarray(M, dtype=float)[:3, :3] @ np.asarray(v, dtype=float)


def _res(out):
    return {"i": bool(out[0]), "w12": np.asarray(out[1], dtype=float).tolist(),
            "w21": np.asarray(out[2], dtype=float).tolist()}


class Exec:
    def __init__(self, cfg):
        self.s = {}

    def close(self):
        self.s.clear()

    def _slot(self, i):
        e = self.s.get(i)
        if e is None:
            raise Skip()
        return e

    @staticmethod
    def twin(e, frame=None, motion=None):
        """A brand-new body with the model's world geometry, expressed in body frame `frame`, moved by `motion`."""
        F = np.eye(4) if frame is None else np.array(frame, dtype=float)
        Finv = np.linalg.inv(F)
        V = world_points(Finv, e["world"])
        pose = F if motion is None else np.array(motion, dtype=float) @ F
        return hc.RigidBody(np.ascontiguousarray(pose), np.ascontiguousarray(V), e["tets"].copy(),
                            e["pot"].copy(), e["E"])

    def run(self, op):
        k = op["op"]
        if k == "body":
            b = make_body(op["kind"], op["params"], op["pose"])
            b.youngs_modulus = float(op["E"])
            e = {"obj": b, "tets": np.array(b.tetrahedra_, dtype=int), "pot": np.array(b.potentials_, dtype=float),
                 "local": np.array(b.vertices_, dtype=float), "E": float(op["E"]),
                 "world": world_points(b.body2origin_, np.array(b.vertices_, dtype=float)), "reexpressed": False}
            self.s[op["s"]] = e
            return {"ntet": int(len(e["tets"])), "nvert": int(len(e["local"]))}
        if k == "setpose":
            e = self._slot(op["s"])
            if e["reexpressed"]:
                raise Skip()  # the meaning of update_pose after an in-place re-expression is not defined by C16
            T = np.array(op["pose"], dtype=float)
            e["obj"].update_pose(T)
            e["world"] = world_points(T, e["local"])
            return {}
        if k == "nudge":
            # the caller moves the body by editing its pose array in place (as examples/visualizations/
            # vis_pressure_field_collision.py does): a pure translation of the body in the world
            e = self._slot(op["s"])
            d = np.array(op["d"], dtype=float)
            e["obj"].body2origin_[:3, 3] += d
            e["world"] = e["world"] + d
            if not e["reexpressed"]:
                pass
            return {}
        if k == "express":
            e = self._slot(op["s"])
            e["obj"].express_in(np.array(op["frame"], dtype=float))
            e["reexpressed"] = True
            return {}
        if k == "setE":
            e = self._slot(op["s"])
            e["obj"].youngs_modulus = float(op["E"])
            e["E"] = float(op["E"])
            return {}
        if k == "forces":
            ea, eb = self._slot(op["a"]), self._slot(op["b"])
            if op["a"] == op["b"]:
                raise Skip()
            out = {"live": _res(hc.contact_forces(ea["obj"], eb["obj"]))}
            ea["reexpressed"] = True
            if op.get("dup"):
                out["dup"] = _res(hc.contact_forces(ea["obj"], eb["obj"]))
            fa, fb = op.get("frame_a"), op.get("frame_b")
            tw = hc.contact_forces(self.twin(ea, fa), self.twin(eb, fb), return_details=True)
            out["twin"] = _res(tw)
            det = tw[3] if len(tw) > 3 else {}
            out["area"] = float(np.sum(det["contact_areas"])) if det and "contact_areas" in det else 0.0
            # sum of the magnitudes of the per-polygon forces: the scale of the discretisation noise when the net
            # force is a cancellation (nested bodies: closed equal-pressure surface)
            out["fabs"] = float(np.sum(np.linalg.norm(det["contact_forces"], axis=1))) if det and "contact_forces" in det else 0.0
            out["swap"] = _res(hc.contact_forces(self.twin(eb, fb), self.twin(ea, fa)))
            M = op.get("motion")
            if M is not None:
                out["moved"] = _res(hc.contact_forces(self.twin(ea, fa, M), self.twin(eb, fb, M)))
            return out
        if k == "surface":
            ea, eb = self._slot(op["a"]), self._slot(op["b"])
            if op["a"] == op["b"]:
                raise Skip()
            out = {}
            if op.get("live") is not None:  # history-making calls on the live bodies, both broad phases (seeded order)
                res = {}
                for mode in ((True, False) if op["live"] == "tree" else (False, True)):
                    cs = hc.find_contact_surface(ea["obj"], eb["obj"], use_aabb_trees=mode)
                    res[mode] = sorted([int(i), int(j)] for i, j in zip(cs.intersecting_tetrahedra1,
                                                                       cs.intersecting_tetrahedra2))
                ea["reexpressed"] = True
                out["live_tree"], out["live_brute"] = res[True], res[False]
            fa, fb = op.get("frame_a"), op.get("frame_b")
            cs1 = hc.find_contact_surface(self.twin(ea, fa), self.twin(eb, fb), use_aabb_trees=False)
            cs2 = hc.find_contact_surface(self.twin(ea, fa), self.twin(eb, fb), use_aabb_trees=True)
            out["brute"] = sorted([int(i), int(j)] for i, j in zip(cs1.intersecting_tetrahedra1,
                                                                  cs1.intersecting_tetrahedra2))
            out["tree"] = sorted([int(i), int(j)] for i, j in zip(cs2.intersecting_tetrahedra1,
                                                                 cs2.intersecting_tetrahedra2))
            out["flags"] = [bool(cs1.intersection), bool(cs2.intersection)]
            return out
        raise ValueError("unknown op %r" % k)
