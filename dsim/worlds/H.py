"""World H: hydroelastic rigid bodies with a history of contact queries that re-express them in place.
Generator and oracles for C16."""
import math

import numpy as np

WORLD = "H"
KINDS = ["sphere", "ellipsoid", "cube", "box", "cylinder", "capsule"]


def gen_body(rng, tier, scale):
    kind = rng.choice(KINDS)
    s = scale * rng.choice([0.5, 1.0, 1.0, 2.0])
    fine = tier == "thorough" and rng.chance(0.3)
    if kind == "sphere":
        p = {"radius": s, "order": rng.choice([0, 1, 1, 2] if not fine else [2, 3])}
        ext = s
    elif kind == "ellipsoid":
        radii = [s * rng.choice([0.5, 1.0, 1.5]) for _ in range(3)]
        p = {"radii": radii, "order": rng.choice([0, 1, 1] if not fine else [2])}
        ext = max(radii)
    elif kind == "cube":
        p = {"size": 2 * s}
        ext = s * math.sqrt(3)
    elif kind == "box":
        size = [2 * s * rng.choice([0.3, 1.0, 1.5]) for _ in range(3)]
        p = {"size": size}
        ext = 0.5 * float(np.linalg.norm(size))
    elif kind == "cylinder":
        r = s * rng.choice([0.3, 1.0])
        ln = s * rng.choice([0.5, 2.0, 6.0])
        n = rng.choice([6, 8, 10] if not fine else [16])
        if rng.chance(0.15):
            # a finely tessellated rim: the AABB tree is built by x-sorted insertion without rebalancing, so it gets
            # deep (depth ~ n / 2), which is what the tree-based broad phase has to cope with
            n = rng.choice([130, 170, 210, 300])
        p = {"radius": r, "length": ln, "hint": 2 * math.pi * r / n}
        ext = math.hypot(r, ln / 2)
    else:
        r = s * rng.choice([0.3, 1.0])
        h = s * rng.choice([0.5, 2.0])
        n = rng.choice([6, 8] if not fine else [12])
        p = {"radius": r, "height": h, "hint": 2 * math.pi * r / n}
        ext = r + h / 2
    return kind, p, ext


def gen(rng, tier="quick", prop="C16"):
    cfg = {"faults": sorted(f for f in ("dup", "frames", "motion", "live-surface", "setpose", "setE", "nudge", "express") if rng.chance(0.7)),
           "identity_rotations": rng.chance(0.15)}
    faults = set(cfg["faults"])
    scale = rng.choice([0.05, 0.15, 0.5, 1.0, 2.0])
    mixed = rng.chance(0.2)  # bodies of very different size (each draws its own scale)
    cfg["mixed_scales"] = mixed
    nb = rng.choice([2, 2, 3])
    ops = []
    ext = {}
    pos = {}

    def pose_near(anchor, e_new):
        T = np.eye(4)
        if not cfg["identity_rotations"]:
            T[:3, :3] = rng.rot()
        if anchor is None:
            T[:3, 3] = rng.position(rng.choice([0.0, 1.0, 10.0, 100.0, 500.0]))
        else:
            u = np.array(rng.unit())
            f = rng.choice([0.2, 0.5, 0.7, 0.9, 1.0, 1.2])
            if rng.chance(0.15):  # shallow contact
                f = 1.0 - rng.logu(1e-6, 3e-2)
            T[:3, 3] = pos[anchor] + u * (ext[anchor] + e_new) * f
        return T

    for s in range(nb):
        kind, p, e = gen_body(rng, tier, rng.choice([0.01, 0.03, 0.3, 3.0, 30.0, 50.0]) if mixed else scale)
        T = pose_near(None if s == 0 else rng.randrange(s), e)
        ext[s] = e
        pos[s] = T[:3, 3].copy()
        ops.append({"op": "body", "s": s, "kind": kind, "params": p, "pose": (T + 0.0).tolist(),
                    "E": rng.choice([1.0, 1.0, rng.logu(1e-2, 1e2)])})
    reexpressed = set()
    if rng.chance(0.25):
        # a simulation loop: one body approaches / retreats in small in-place steps, the same pair is queried after
        # every step
        cfg["stepping"] = True
        a = rng.randrange(nb)
        b = (a + 1 + rng.randrange(nb - 1)) % nb
        u = np.array(rng.unit())
        for _ in range(rng.randint(3, 8)):
            mover = rng.choice([a, b, b])
            d = (u * ext[mover] * rng.logu(1e-3, 3e-2) * rng.choice([-1.0, 1.0, 1.0])).tolist()
            ops.append({"op": "nudge", "s": mover, "d": d})
            op = {"op": "forces", "a": a, "b": b}
            if "frames" in faults:
                op["frame_a"] = rng.pose(rng.choice([0.0, 1.0]))
                op["frame_b"] = rng.pose(rng.choice([0.0, 1.0]))
            ops.append(op)
            if rng.chance(0.15):
                a, b = b, a
        return {"world": WORLD, "cfg": cfg, "ops": ops}
    nops = rng.randint(3, 8) if tier == "quick" else rng.randint(4, 15)
    for _ in range(nops):
        a = rng.randrange(nb)
        b = (a + 1 + rng.randrange(nb - 1)) % nb
        r = rng.random()
        if r < 0.1 and "setpose" in faults:
            cand = [s for s in range(nb) if s not in reexpressed]
            if cand:
                s = rng.choice(cand)
                others = [x for x in range(nb) if x != s]
                T = pose_near(rng.choice(others), ext[s])
                pos[s] = T[:3, 3].copy()
                ops.append({"op": "setpose", "s": s, "pose": (T + 0.0).tolist()})
                continue
        if r < 0.2 and "nudge" in faults:
            s_ = rng.randrange(nb)
            d = (np.array(rng.unit()) * ext[s_] * rng.logu(1e-3, 0.3)).tolist()
            ops.append({"op": "nudge", "s": s_, "d": d})
            continue
        if r < 0.3 and "express" in faults:
            # the public RigidBody.express_in called by the user: the body keeps its place in the world, only the
            # frame it is stored in changes (sometimes twice in a row, sometimes to the world frame)
            s_ = rng.randrange(nb)
            for _ in range(rng.choice([1, 1, 2])):
                ops.append({"op": "express", "s": s_, "frame": np.eye(4).tolist() if rng.chance(0.3)
                            else rng.pose(rng.choice([0.0, 1.0, 10.0]))})
            reexpressed.add(s_)
            continue
        if r < 0.15 and "setE" in faults:
            ops.append({"op": "setE", "s": a, "E": rng.logu(1e-2, 1e2)})
            continue
        op = {"a": a, "b": b}
        if "frames" in faults:
            op["frame_a"] = rng.pose(rng.choice([0.0, 1.0]))
            op["frame_b"] = rng.pose(rng.choice([0.0, 1.0]))
        if r < 0.75:
            op["op"] = "forces"
            if "dup" in faults and rng.chance(0.4):
                op["dup"] = True
            if "motion" in faults and rng.chance(0.6):
                op["motion"] = rng.pose(rng.choice([0.0, 1.0, 10.0]))
        else:
            op["op"] = "surface"
            if "live-surface" in faults:
                op["live"] = rng.choice(["tree", "brute"])
        if op["op"] == "forces" or op.get("live"):
            reexpressed.add(a)
        ops.append(op)
    return {"world": WORLD, "cfg": cfg, "ops": ops}


# ----------------------------------------------------------------------------------------------- oracle
def _v(prop, oracle, at, msg):
    return {"prop": prop, "oracle": oracle, "at": at, "msg": msg}


def _f(w):
    return np.array(w[:3], dtype=float)


def _close(f1, f2, floor):
    tol = 0.05 * max(float(np.linalg.norm(f1)), float(np.linalg.norm(f2))) + floor
    return float(np.linalg.norm(f1 - f2)) <= tol


class Model:
    def __init__(self):
        self.s = {}

    def apply(self, op):
        k = op["op"]
        if k == "body":
            self.s[op["s"]] = {"kind": op["kind"], "params": op["params"], "E": op["E"], "reexpressed": False,
                               "calls": 0}
            return True
        if k == "nudge":
            return op["s"] in self.s
        if k == "express":
            e = self.s.get(op["s"])
            if e is None:
                return False
            e["reexpressed"] = True
            e["calls"] += 1
            return True
        if k in ("setpose", "setE"):
            e = self.s.get(op["s"])
            if e is None:
                return False
            if k == "setpose" and e["reexpressed"]:
                return False
            if k == "setE":
                e["E"] = op["E"]
            return True
        if op["a"] not in self.s or op["b"] not in self.s or op["a"] == op["b"]:
            return False
        if k == "forces" or op.get("live"):
            self.s[op["a"]]["reexpressed"] = True
            self.s[op["a"]]["calls"] += 1
        return True


def _ext(e):
    p = e["params"]
    k = e["kind"]
    if k == "sphere":
        return p["radius"]
    if k == "ellipsoid":
        return max(p["radii"])
    if k == "cube":
        return p["size"]
    if k == "box":
        return max(p["size"])
    if k == "cylinder":
        return max(p["radius"], p["length"])
    return p["radius"] + p["height"]


def judge(plan, jr, prop="C16"):
    model = Model()
    for k, op in enumerate(plan["ops"]):
        o = jr["obs"][k]
        if o is None:
            break
        live = model.apply(op)
        if o.get("st") == "skip" or not live:
            continue
        if o.get("st") != "ok":
            return [_v(prop, "H.exception", k, "%s raised %s: %s (%s)" % (op["op"], o.get("exc", o.get("st")),
                                                                         o.get("msg"), o.get("where")))]
        if op["op"] == "forces":
            ea, eb = model.s[op["a"]], model.s[op["b"]]
            L = min(_ext(ea), _ext(eb))  # the contact patch cannot be larger than the smaller body
            floor = 1e-7 * max(ea["E"], eb["E"]) * L ** 3 + 0.02 * float(o.get("fabs", 0.0))
            lv, tw, sw = o["live"], o["twin"], o["swap"]
            for name, r in (("live", lv), ("twin", tw), ("swap", sw), ("dup", o.get("dup")), ("moved", o.get("moved"))):
                if r is not None and not (np.all(np.isfinite(r["w12"])) and np.all(np.isfinite(r["w21"]))):
                    return [_v(prop, "H.nonfinite", k, "contact_forces (%s) returned a non-finite wrench" % name)]
            hist = "after %d earlier re-expression(s) of body %d" % (ea["calls"] - 1, op["a"])
            if not _close(_f(lv["w12"]), -_f(lv["w21"]), floor):
                return [_v(prop, "H.action_reaction", k, "f12 = %s but f21 = %s" % (lv["w12"][:3], lv["w21"][:3]))]
            if not _close(_f(tw["w12"]), -_f(tw["w21"]), floor):
                return [_v(prop, "H.action_reaction", k, "fresh bodies: f12 = %s but f21 = %s" % (tw["w12"][:3], tw["w21"][:3]))]
            if not _close(_f(lv["w12"]), _f(tw["w12"]), floor) or not _close(_f(lv["w21"]), _f(tw["w21"]), floor):
                return [_v(prop, "H.history", k, "live bodies (%s) give f12 = %s, fresh bodies with the same world "
                           "geometry give %s" % (hist, lv["w12"][:3], tw["w12"][:3]))]
            big = max(np.linalg.norm(_f(lv["w12"])), np.linalg.norm(_f(tw["w12"]))) > 100 * floor
            if big and lv["i"] != tw["i"]:
                return [_v(prop, "H.history.flag", k, "intersection flag %s on the live bodies vs %s on fresh ones" % (lv["i"], tw["i"]))]
            if not _close(_f(sw["w12"]), _f(tw["w21"]), floor) or not _close(_f(sw["w21"]), _f(tw["w12"]), floor):
                return [_v(prop, "H.swap", k, "contact_forces(b, a) gives f12 = %s, f21 = %s; contact_forces(a, b) "
                           "gives f12 = %s, f21 = %s" % (sw["w12"][:3], sw["w21"][:3], tw["w12"][:3], tw["w21"][:3]))]
            if big and sw["i"] != tw["i"]:
                return [_v(prop, "H.swap.flag", k, "intersection flag changes when the bodies are swapped")]
            if "dup" in o:
                d = o["dup"]
                if not _close(_f(d["w12"]), _f(lv["w12"]), floor) or not _close(_f(d["w21"]), _f(lv["w21"]), floor):
                    return [_v(prop, "H.dup", k, "repeating contact_forces on the same bodies gives f12 = %s after %s"
                               % (d["w12"][:3], lv["w12"][:3]))]
                if big and d["i"] != lv["i"]:
                    return [_v(prop, "H.dup.flag", k, "intersection flag changes when the call is repeated")]
            if "moved" in o:
                M = np.array(op["motion"], dtype=float)
                mv = o["moved"]
                if not _close(_f(mv["w12"]), M[:3, :3] @ _f(tw["w12"]), floor) or \
                        not _close(_f(mv["w21"]), M[:3, :3] @ _f(tw["w21"]), floor):
                    return [_v(prop, "H.motion", k, "moving both bodies by one rigid motion gives f12 = %s, expected the "
                               "rotated force %s" % (mv["w12"][:3], (M[:3, :3] @ _f(tw["w12"])).tolist()))]
                if big and mv["i"] != tw["i"]:
                    return [_v(prop, "H.motion.flag", k, "intersection flag changes under a common rigid motion")]
        elif op["op"] == "surface":
            if "live_tree" in o and o["live_tree"] != o["live_brute"]:
                b, t = {tuple(x) for x in o["live_brute"]}, {tuple(x) for x in o["live_tree"]}
                return [_v(prop, "H.surface.tree.live", k, "on the live (re-expressed) bodies the tree-based broad phase "
                           "reports %d intersecting tetrahedron pairs, brute force %d (only brute: %s, only tree: %s)"
                           % (len(t), len(b), sorted(b - t)[:4], sorted(t - b)[:4]))]
            if o["brute"] != o["tree"]:
                b, t = {tuple(x) for x in o["brute"]}, {tuple(x) for x in o["tree"]}
                return [_v(prop, "H.surface.tree", k, "tree-based broad phase reports %d intersecting tetrahedron pairs, "
                           "brute force %d (only brute: %s, only tree: %s)" % (len(t), len(b), sorted(b - t)[:4],
                                                                                sorted(t - b)[:4]))]
    return []


def signature(plan):
    sig = []
    for op in plan["ops"]:
        k = op["op"]
        if k == "body":
            sig.append("B%s%s" % (op["kind"][:3], op["params"].get("order", "")))
        elif k == "forces":
            sig.append("f%d%d%s%s%s" % (op["a"], op["b"], "d" if op.get("dup") else "", "m" if op.get("motion") else "",
                                        "F" if op.get("frame_a") else ""))
        elif k == "surface":
            sig.append("s%d%d%s" % (op["a"], op["b"], (op.get("live") or "")[:1]))
        else:
            sig.append(k[2] + str(op["s"]))
    return "".join(sig)


def stats(plan, jr):
    s = {}

    def inc(k, n=1):
        s[k] = s.get(k, 0) + n

    model = Model()
    judged_hist = False
    fault = False
    for k, op in enumerate(plan["ops"]):
        o = jr["obs"][k]
        if o is None:
            break
        before = {i: e["calls"] for i, e in model.s.items()}
        live = model.apply(op)
        if not live or o.get("st") != "ok":
            continue
        inc("ops")
        kind = op["op"]
        if kind == "body":
            inc("tetrahedra", o.get("ntet", 0))
        elif kind == "forces":
            inc("judged.forces")
            if before.get(op["a"], 0) >= 1:
                inc("probe.body_reexpressed_again")
                judged_hist = True
            if before.get(op["b"], 0) >= 1:
                inc("probe.body2_was_reexpressed_before")
                judged_hist = True
            if o["twin"]["i"]:
                inc("probe.contact_nonempty")
            if o.get("area", 0) > 0:
                inc("probe.contact_area_positive")
            if op.get("dup"):
                inc("fault.dup")
                fault = True
            if op.get("motion") is not None:
                inc("fault.motion")
            if op.get("frame_a") is not None:
                inc("fault.frames")
        elif kind == "surface":
            inc("judged.surface")
            inc("probe.surface_pairs", len(o["brute"]))
            if op.get("live"):
                inc("fault.live-surface." + op["live"])
                fault = True
        elif kind == "nudge":
            inc("fault.nudge_in_place")
        elif kind == "express":
            inc("fault.express_in_by_user")
        elif kind == "setpose":
            inc("fault.setpose")
        elif kind == "setE":
            inc("fault.setE")
    s["nontrivial"] = 1 if judged_hist else 0
    if not fault:
        s["fault_free"] = 1
    return s


def shrink_candidates(plan):
    """Simpler variants: drop dup / motion / frames / live flags, identity rotations, rounder translations."""
    import copy
    for k, op in enumerate(plan["ops"]):
        for key in ("dup", "motion", "frame_a", "frame_b", "live"):
            if key in op:
                p = copy.deepcopy(plan)
                del p["ops"][k][key]
                yield p
        if op["op"] in ("body", "setpose"):
            T = np.array(op["pose"], dtype=float)
            if not np.array_equal(T[:3, :3], np.eye(3)):
                p = copy.deepcopy(plan)
                T2 = T.copy()
                T2[:3, :3] = np.eye(3)
                p["ops"][k]["pose"] = T2.tolist()
                yield p
            t = [float("%.2g" % v) for v in T[:3, 3]]
            if t != T[:3, 3].tolist():
                p = copy.deepcopy(plan)
                T2 = T.copy()
                T2[:3, 3] = t
                p["ops"][k]["pose"] = T2.tolist()
                yield p
        if op["op"] == "body" and op.get("E") != 1.0:
            p = copy.deepcopy(plan)
            p["ops"][k]["E"] = 1.0
            yield p
