"""World T executor: AabbTree slots (real distance3d.aabb_tree)."""
import numpy as np

from distance3d.aabb_tree import AabbTree
from dsim import seams
from dsim.worker import Skip


class Exec:
    def __init__(self, cfg):
        self.trees = {}

    def close(self):
        self.trees.clear()

    def _tree(self, slot):
        t = self.trees.get(slot)
        if t is None:
            raise Skip()
        return t

    @staticmethod
    def _lookup(tree, i):
        n = len(tree.external_data_list)
        m = len(tree.insert_index_list)
        if i < 0 or i >= n or i >= m:
            return [int(i), "OOB", None]
        return [int(i), tree.external_data_list[i], tree.insert_index_list[i]]

    def run(self, op):
        k = op["op"]
        if k == "new":
            self.trees[op["t"]] = AabbTree()
            return {}
        if k == "ins":
            t = self._tree(op["t"])
            boxes = np.array(op["boxes"], dtype=float).reshape(-1, 3, 2)
            data = op.get("data")
            if op.get("single"):
                for i in range(len(boxes)):
                    t.insert_aabb(boxes[i], None if data is None else data[i])
            else:
                seams.set_next_permutation(op.get("perm"))
                try:
                    t.insert_aabbs(boxes, None if data is None else list(data),
                                   pre_insertion_methode=op.get("mode", "none"))
                finally:
                    seams.set_next_permutation(None)
            if op.get("reuse"):
                boxes[:] = 7e77  # the caller recycles its buffer; the tree must have taken the values
            return {"n": int(len(boxes)), "filled": int(t.filled_len)}
        if k == "qbox":
            t = self._tree(op["t"])
            flag, idx = t.overlaps_aabb(np.array(op["box"], dtype=float))
            return {"flag": bool(flag), "hits": [self._lookup(t, int(i)) for i in idx],
                    "dtype": str(np.asarray(idx).dtype.kind)}
        if k == "qtree":
            a = self._tree(op["a"])
            b = self._tree(op["b"])
            flag, oself, oother, pairs = a.overlaps_aabb_tree(b)
            out = []
            for p in pairs:
                i, j = int(p[0]), int(p[1])
                la, lb = self._lookup(a, i), self._lookup(b, j)
                out.append([i, j, la[1], la[2], lb[1], lb[2]])
            return {"flag": bool(flag), "pairs": out, "dtype": str(np.asarray(oself).dtype.kind) + str(np.asarray(oother).dtype.kind),
                    "oself": [int(i) for i in oself], "oother": [int(i) for i in oother]}
        if k == "root":
            t = self._tree(op["t"])
            if t.root < 0:
                return {"empty": True}
            return {"aabb": np.array(t.get_root_aabb()).tolist()}
        raise ValueError("unknown op %r" % k)
