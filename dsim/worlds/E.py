"""World E: flat seeded corpus over the public jitted surface (arguments generated from the parameter names).
Plain seeded sampling; exists only as workload for the two-engine comparison of C20."""
import math

import numpy as np

WORLD = "E"

# (module, function, parameter names, result kind)
#   kind "dist"  : (distance, point, point) - distance compared to 1e-9, points only for non-degenerate placements
#   kind "dist1" : (distance, point)        - same
#   kind "exact" : closed form, everything compared to 1e-9 relative
#   kind "iter"  : iterative / bisection based, 1e-6 relative
#   kind "bool"  : boolean array
D = "distance"
CORPUS = [
    (D, "point_to_line", ["point", "line_point", "line_direction"], "dist1"),
    (D, "point_to_line_segment", ["point", "segment_start", "segment_end"], "dist1"),
    (D, "point_to_plane", ["point", "plane_point", "plane_normal"], "dist1"),
    (D, "point_to_triangle", ["point", "triangle_points"], "dist1"),
    (D, "point_to_rectangle", ["point", "rectangle_center", "rectangle_axes", "rectangle_lengths"], "dist1"),
    (D, "point_to_disk", ["point", "center", "radius", "normal"], "dist1"),
    (D, "point_to_circle", ["point", "center", "radius", "normal"], "dist1"),
    (D, "point_to_box", ["point", "box2origin", "size"], "dist1"),
    (D, "point_to_ellipsoid", ["point", "ellipsoid2origin", "radii"], "iter"),
    (D, "point_to_cylinder", ["point", "cylinder2origin", "radius", "length"], "dist1"),
    (D, "line_to_line", ["line_point1", "line_direction1", "line_point2", "line_direction2"], "dist"),
    (D, "line_to_line_segment", ["line_point", "line_direction", "segment_start", "segment_end"], "dist"),
    (D, "line_to_plane", ["line_point", "line_direction", "plane_point", "plane_normal"], "dist"),
    (D, "line_to_triangle", ["line_point", "line_direction", "triangle_points"], "dist"),
    (D, "line_to_rectangle", ["line_point", "line_direction", "rectangle_center", "rectangle_axes", "rectangle_lengths"], "dist"),
    (D, "line_to_circle", ["line_point", "line_direction", "center", "radius", "normal"], "iter"),
    (D, "line_to_box", ["line_point", "line_direction", "box2origin", "size"], "dist"),
    (D, "line_segment_to_line_segment", ["segment_start1", "segment_end1", "segment_start2", "segment_end2"], "dist"),
    (D, "line_segment_to_plane", ["segment_start", "segment_end", "plane_point", "plane_normal"], "dist"),
    (D, "line_segment_to_triangle", ["segment_start", "segment_end", "triangle_points"], "dist"),
    (D, "line_segment_to_rectangle", ["segment_start", "segment_end", "rectangle_center", "rectangle_axes", "rectangle_lengths"], "dist"),
    (D, "line_segment_to_circle", ["segment_start", "segment_end", "center", "radius", "normal"], "iter"),
    (D, "line_segment_to_box", ["segment_start", "segment_end", "box2origin", "size"], "dist"),
    (D, "plane_to_plane", ["plane_point1", "plane_normal1", "plane_point2", "plane_normal2"], "dist"),
    (D, "plane_to_triangle", ["plane_point", "plane_normal", "triangle_points"], "dist"),
    (D, "plane_to_rectangle", ["plane_point", "plane_normal", "rectangle_center", "rectangle_axes", "rectangle_lengths"], "dist"),
    (D, "plane_to_box", ["plane_point", "plane_normal", "box2origin", "size"], "dist"),
    (D, "plane_to_ellipsoid", ["plane_point", "plane_normal", "ellipsoid2origin", "radii"], "dist"),
    (D, "plane_to_cylinder", ["plane_point", "plane_normal", "cylinder2origin", "radius", "length"], "dist"),
    (D, "triangle_to_triangle", ["triangle_points1", "triangle_points2"], "dist"),
    (D, "triangle_to_rectangle", ["triangle_points", "rectangle_center", "rectangle_axes", "rectangle_lengths"], "dist"),
    (D, "rectangle_to_rectangle", ["rectangle_center1", "rectangle_axes1", "rectangle_lengths1", "rectangle_center2", "rectangle_axes2", "rectangle_lengths2"], "dist"),
    (D, "rectangle_to_box", ["rectangle_center", "rectangle_axes", "rectangle_lengths", "box2origin", "size"], "dist"),
    (D, "disk_to_disk", ["center1", "radius1", "normal1", "center2", "radius2", "normal2"], "iter"),
    ("containment", "axis_aligned_bounding_box", ["P"], "exact"),
    ("containment", "box_aabb", ["box2origin", "size"], "exact"),
    ("containment", "capsule_aabb", ["capsule2origin", "radius", "height"], "exact"),
    ("containment", "cone_aabb", ["cone2origin", "radius", "height"], "exact"),
    ("containment", "cylinder_aabb", ["cylinder2origin", "radius", "length"], "exact"),
    ("containment", "disk_aabb", ["center", "radius", "normal"], "exact"),
    ("containment", "ellipse_aabb", ["center", "axes", "radii2"], "exact"),
    ("containment", "ellipsoid_aabb", ["ellipsoid2origin", "radii"], "exact"),
    ("containment", "sphere_aabb", ["center", "radius"], "exact"),
    ("containment_test", "points_in_box", ["points", "box2origin", "size"], "bool"),
    ("containment_test", "points_in_capsule", ["points", "capsule2origin", "radius", "height"], "bool"),
    ("containment_test", "points_in_cone", ["points", "cone2origin", "radius", "height"], "bool"),
    ("containment_test", "points_in_cylinder", ["points", "cylinder2origin", "radius", "length"], "bool"),
    ("containment_test", "points_in_disk", ["points", "center", "radius", "normal"], "bool"),
    ("containment_test", "points_in_ellipsoid", ["points", "ellipsoid2origin", "radii"], "bool"),
    ("containment_test", "points_in_sphere", ["points", "center", "radius"], "bool"),
    ("containment_test", "points_in_convex_mesh", ["points", "mesh2origin", "vertices", "triangles"], "bool"),
    ("geometry", "support_function_box", ["search_direction", "box2origin", "half_lengths"], "exact"),
    ("geometry", "support_function_capsule", ["search_direction", "capsule2origin", "radius", "height"], "exact"),
    ("geometry", "support_function_cone", ["search_direction", "cone2origin", "radius", "height"], "exact"),
    ("geometry", "support_function_cylinder", ["search_direction", "cylinder2origin", "radius", "length"], "exact"),
    ("geometry", "support_function_disk", ["search_direction", "center", "radius", "normal"], "exact"),
    ("geometry", "support_function_ellipse", ["search_direction", "center", "axes", "radii2"], "exact"),
    ("geometry", "support_function_ellipsoid", ["search_direction", "ellipsoid2origin", "radii"], "exact"),
    ("geometry", "support_function_sphere", ["search_direction", "center", "radius"], "exact"),
    ("geometry", "convert_box_to_vertices", ["box2origin", "size"], "exact"),
    ("geometry", "convert_rectangle_to_vertices", ["rectangle_center", "rectangle_axes", "rectangle_lengths"], "exact"),
    ("geometry", "hesse_normal_form", ["plane_point", "plane_normal"], "exact"),
    ("geometry", "barycentric_coordinates_tetrahedron", ["p", "tetrahedron_points"], "exact"),
    ("utils", "norm_vector", ["v"], "exact"),
    ("utils", "scalar_triple_product", ["a", "b", "c"], "exact"),
    ("utils", "plane_basis_from_normal", ["plane_normal"], "exact"),
    ("utils", "transform_point", ["A2B", "point_in_A"], "exact"),
    ("utils", "transform_points", ["A2B", "points_in_A"], "exact"),
    ("utils", "transform_directions", ["A2B", "directions_in_A"], "exact"),
    ("utils", "inverse_transform_point", ["A2B", "point_in_B"], "exact"),
    ("utils", "invert_transform", ["A2B"], "exact"),
    ("utils", "adjoint_from_transform", ["A2B"], "exact"),
    ("utils", "cross_product_matrix", ["v"], "exact"),
    ("aabb_tree", "all_aabbs_overlap", ["aabbs1", "aabbs2"], "exact"),
    ("aabb_tree", "aabb_overlap", ["aabb1", "aabb2"], "exact"),
    ("hydro", "intersect_halfplanes", ["halfplanes"], "exact"),
    ("hydro", "intersect_tetrahedron_pair", ["tetrahedron1", "epsilon1", "tetrahedron2", "epsilon2"], "tetra"),
    ("hydro", "tetrahedral_mesh_aabbs", ["tetrahedra_points"], "exact"),
    ("hydro", "tetrahedral_mesh_volumes", ["tetrahedra_points"], "exact"),
    ("hydro", "center_of_mass_tetrahedral_mesh", ["tetrahedra_points"], "exact"),
]
KIND = {(m, f): k for m, f, _, k in CORPUS}
CASE_TREE = ("line_to_box", "line_segment_to_box")


class Ctx:
    """Per-call generation context: a local scale and an anchor so that objects interact; exact degenerate
    placements (parallel / perpendicular / touching / coincident) on request."""

    def __init__(self, rng):
        self.rng = rng
        self.scale = rng.choice([0.2, 0.5, 1.0, 1.0, 2.0, 10.0, 100.0])
        self.anchor = np.array(rng.position(rng.choice([0.0, 1.0, 10.0])))
        self.deg = rng.chance(0.35)
        self.R = rng.rot() if self.deg else rng.quat_rot()
        self.dirs = []
        self.points = []
        self.last_start = None

    def pos(self):
        r = self.rng
        if self.deg and self.dirs and self.points and r.chance(0.3):
            # on the line / in the plane spanned by what was generated before: coincident, contained, touching placements
            q = self.points[-1] + self.dirs[-1] * (self.scale * r.choice([0.0, 1.0, -2.0, r.gauss(0, 1)]))
            self.points.append(q)
            return q
        q = self._pos()
        self.points.append(q)
        return q

    def _pos(self):
        r = self.rng
        if self.deg and r.chance(0.4):
            return self.anchor + self.R @ (np.array([float(r.randint(-2, 2)) for _ in range(3)]) * self.scale * 0.5)
        return self.anchor + np.array(r.vec()) * self.scale

    def direction(self):
        r = self.rng
        if self.deg and not self.dirs and len(self.points) >= 2 and r.chance(0.4):
            # a normal / direction exactly perpendicular to the segment spanned by the last two points (e.g. a plane
            # parallel to a segment), or parallel to it
            e = self.points[-1] - self.points[-2]
            ne = float(np.linalg.norm(e))
            if ne > 0:
                if r.chance(0.7):
                    o = np.cross(e, np.array(r.unit()))
                    if np.linalg.norm(o) > 1e-9 * ne:
                        out = o / np.linalg.norm(o)
                        self.dirs.append(out)
                        return out
                else:
                    out = e / ne
                    self.dirs.append(out)
                    return out
        if self.deg and self.dirs and r.chance(0.6):
            d = self.dirs[-1]
            c = r.random()
            if c < 0.5:
                out = d * r.choice([-1.0, 1.0])  # exactly parallel
            else:
                o = np.cross(d, np.array(r.unit()))
                out = o / np.linalg.norm(o)  # perpendicular
        elif self.deg and r.chance(0.5):
            out = self.R[:, r.randrange(3)] * r.choice([-1.0, 1.0])
        else:
            out = np.array(r.unit())
        self.dirs.append(out)
        return out

    def pose(self):
        T = np.eye(4)
        T[:3, :3] = (self.R if self.rng.chance(0.5) else self.rng.rot()) if self.deg else self.rng.quat_rot()
        T[:3, 3] = self.pos()
        return T

    def size(self):
        return float(self.scale * self.rng.choice([0.2, 0.5, 1.0, 1.0, 2.0]) if self.scale * 0.2 >= 0.2
                     else max(0.2, self.scale * self.rng.choice([1.0, 2.0])))


def gen_arg(name, c):
    r = c.rng
    base = name.rstrip("12")
    if base == "segment_end":
        for _ in range(50):  # well-formed input: segments of non-zero length
            q = c.pos()
            if c.last_start is None or np.linalg.norm(q - c.last_start) > 1e-2 * c.scale:
                break
        return (q + 0.0).tolist()
    if base in ("point", "line_point", "plane_point", "segment_start", "center", "rectangle_center",
                "p", "point_in_A", "point_in_B"):
        q = c.pos()
        if base == "segment_start":
            c.last_start = q
        return (q + 0.0).tolist()
    if base in ("line_direction", "plane_normal", "normal"):
        return (c.direction() + 0.0).tolist()
    if base == "search_direction":
        d = c.direction() * r.choice([1.0, 1.0, r.logu(1e-6, 1e3)])
        if r.chance(0.1):
            d = d * 0.0 if r.chance(0.3) else d
        return (d + 0.0).tolist()
    if base in ("a", "b", "c", "v", "line_moment"):
        if name == "v" and r.chance(0.1):
            return [0.0, 0.0, 0.0]
        return (np.array(r.vec()) * c.scale + 0.0).tolist()
    if base == "triangle_points":
        for _ in range(50):  # well-formed input: triangles of non-zero area
            P = np.array([c.pos() for _ in range(3)])
            if np.linalg.norm(np.cross(P[1] - P[0], P[2] - P[0])) > 1e-3 * c.scale ** 2:
                break
        else:
            P = c.anchor + np.eye(3) * c.scale
        return (P + 0.0).tolist()
    if base in ("tetrahedron_points", "tetrahedron"):
        for _ in range(50):  # well-formed input: tetrahedra of non-zero volume
            P = np.array([c.pos() for _ in range(4)])
            if abs(np.linalg.det(P[1:] - P[0])) > 1e-3 * c.scale ** 3:
                break
        else:
            P = c.anchor + np.vstack((np.zeros(3), np.eye(3))) * c.scale
        return (P + 0.0).tolist()
    if base in ("rectangle_axes", "axes"):
        R = (c.R if r.chance(0.5) else r.rot()) if c.deg else r.quat_rot()
        return (R[:, :2].T + 0.0).tolist()
    if base == "rectangle_lengths":
        return [c.size(), c.size()]
    if base in ("radius", "length", "height"):
        return c.size()
    if base == "radii":
        return [c.size(), c.size(), c.size()]
    if base == "radii2":
        return [c.size(), c.size()]
    if base in ("size", "half_lengths"):
        return [c.size(), c.size(), c.size()]
    if base.endswith("2origin") or base == "A2B":
        return (c.pose() + 0.0).tolist()
    if base in ("points", "points_in_A", "directions_in_A", "P", "A", "B"):
        n = r.choice([0, 1, 1, 3, 8]) if base != "P" else r.choice([1, 3, 8])
        if n == 0:
            return {"empty": [0, 3]}
        return [(c.pos() + 0.0).tolist() for _ in range(n)]
    if base == "aabbs":
        n = r.choice([0, 1, 3, 6])
        if n == 0:
            return {"empty": [0, 3, 2]}
        out = []
        for _ in range(n):
            lo = np.array([float(r.randint(-3, 3)) for _ in range(3)]) if c.deg else c.pos()
            w = np.array([float(r.choice([0, 1, 2])) for _ in range(3)]) if c.deg else np.abs(np.array(r.vec())) * c.scale
            out.append([[float(lo[i]), float(lo[i] + w[i])] for i in range(3)])
        return out
    if base == "aabb":
        return gen_arg("aabbs", _one(c))[0]
    if base == "halfplanes":
        n = r.choice([0, 2, 3, 4, 6, 8])
        if n == 0:
            return {"empty": [0, 4]}
        out = []
        for i in range(n):
            a = 2 * math.pi * i / n + r.uniform(-0.2, 0.2)
            nrm = np.array([math.cos(a), math.sin(a)])
            p = nrm * r.uniform(0.5, 2.0) * (-1.0)
            # boundary through p with direction perpendicular to the inward normal
            out.append([float(-p[0]), float(-p[1]), float(-nrm[1]), float(nrm[0])])
        return out
    if base == "epsilon":
        e = [0.0, 0.0, 0.0, 0.0]
        e[r.randrange(4)] = c.size()
        if r.chance(0.5):
            e[r.randrange(4)] = c.size() * 0.5
        return e
    if base == "tetrahedra_points":
        n = r.choice([0, 1, 4])
        if n == 0:
            return {"empty": [0, 4, 3]}
        return [gen_arg("tetrahedron_points", c) for _ in range(n)]
    raise KeyError(name)


class _one:
    def __init__(self, c):
        self.__dict__.update(c.__dict__)
        outer = c.rng

        class R1:
            def __getattr__(self, k):
                return getattr(outer, k)

            def choice(self, seq):
                if list(seq) == [0, 1, 3, 6]:
                    return 1
                return outer.choice(seq)
        self.rng = R1()

    pos = Ctx.pos
    _pos = Ctx._pos
    size = Ctx.size


def gen_mesh_args(c):
    from .K import gen_mesh
    spec = gen_mesh(c.rng, "quick", c.scale)
    return spec["vertices"], spec["triangles"]


def gen(rng, tier="quick", prop="C20"):
    ops = []
    n = rng.randint(20, 60)
    fns = rng.sample(CORPUS, rng.choice([3, 8, 20, len(CORPUS)]))
    for _ in range(n):
        mod, fn, names, kind = rng.choice(fns)
        c = Ctx(rng)
        args = []
        mesh = None
        for nm in names:
            if nm in ("vertices", "triangles"):
                if mesh is None:
                    mesh = gen_mesh_args(c)
                args.append([nm, mesh[0] if nm == "vertices" else mesh[1]])
            else:
                args.append([nm, gen_arg(nm, c)])
        op = {"op": "call", "mod": mod, "fn": fn, "args": args, "deg": bool(c.deg)}
        if kind == "tetra":
            op["pre"] = "barycentric"
        ops.append(op)
    return {"world": WORLD, "cfg": {"functions": len(fns)}, "ops": ops}


def _scale(op):
    m = 1.0
    for _, v in op["args"]:
        if isinstance(v, dict):
            continue
        a = np.asarray(v, dtype=float)
        if a.size:
            m = max(m, float(np.max(np.abs(a))))
    return m


def compare(op, a, b, ctx):
    from .X import deep_close
    kind = KIND.get((op["mod"], op["fn"]), "exact")
    ra, rb = a.get("r"), b.get("r")
    L = _scale(op)
    if kind in ("dist", "dist1", "iter"):
        rel = 1e-6 if kind == "iter" else 1e-9
        if op.get("deg") and op["fn"] in CASE_TREE:
            # case-tree implementations evaluated exactly on a case boundary (seeded degenerate placement): an ulp-level
            # difference may select the neighbouring case, whose answer differs by the function's own accuracy
            # (C10/C11: 1e-6*L), not by 1e-9
            rel = 1e-6
        if isinstance(ra, list) and isinstance(rb, list) and ra and rb:
            msg = deep_close(ra[0], rb[0], rel, rel * L)
            if msg:
                return "distance %s%s" % (msg, " [seeded degenerate placement]" if op.get("deg") else "")
            separated = isinstance(ra[0], float) and ra[0] > 1e-6 * L  # overlapping sets: common points are not unique
            if not op.get("deg") and kind != "iter" and separated:
                msg = deep_close(ra[1:], rb[1:], 1e-9, 1e-7 * L)
                if msg:
                    return "closest points %s" % msg
            return None
        return deep_close(ra, rb, rel, rel * L)
    if kind == "bool":
        return deep_close(ra, rb, 0, 0)
    if kind == "tetra":
        if isinstance(ra, list) and isinstance(rb, list) and ra[0] != rb[0]:
            return "intersection flag %s vs %s" % (ra[0], rb[0])
        return None
    return deep_close(ra, rb, 1e-9, 1e-9 * L)


def tolerated_outcome(plan, op, a, b):
    """Outcome-class differences that are not engine divergences in the sense of C20."""
    if op.get("op") == "narrow" and op.get("fn") in ("epa", "epa_big"):
        # EPA's polytope-capacity assertion (allowed by C19 for smooth shapes, known finding F1 for polytopes) is reached
        # or not depending on ulp-level differences in a path-dependent expansion, typically on degenerate input such as
        # the same object passed twice; one engine asserting where the other returns is not compared
        for x in (a, b):
            if x.get("st") == "exc" and x.get("exc") == "AssertionError" and str(x.get("where", "")).startswith("epa.py"):
                return True
    return False


def signature(plan):
    return ",".join(sorted({op["fn"] for op in plan["ops"]})) + ":%d" % len(plan["ops"])


def stats(plan, jr):
    s = {}
    for k, op in enumerate(plan["ops"]):
        o = jr["obs"][k]
        if o is None:
            break
        s["judged.call." + op["mod"]] = s.get("judged.call." + op["mod"], 0) + 1
        if op.get("deg"):
            s["probe.degenerate_placement"] = s.get("probe.degenerate_placement", 0) + 1
        if any(isinstance(v, dict) for _, v in op["args"]):
            s["probe.empty_container_argument"] = s.get("probe.empty_container_argument", 0) + 1
        if o.get("st") == "exc":
            s["probe.call_raised"] = s.get("probe.call_raised", 0) + 1
    s["nontrivial"] = 1
    return s


def judge(plan, jr, prop="C20"):
    return []
