"""Orchestration: seeded search over plans on all cores, oracles, minimisation, replay files, evidence.

Exit codes: 0 property held on everything explored (KNOWN-FINDING lines allowed) / 1 + ``VIOLATION property=<id>
replay=<path>`` / 2 + ``HARNESS-ERROR`` for faults of the machinery itself.
"""
import argparse
import concurrent.futures as cf
import json
import multiprocessing as mp
import os
import re
import sys
import time
import traceback

from . import boot, lane as lane_mod, plan as plan_mod, shrink
from .props import PROPS, spec_for

VERIF = boot.VERIF_ROOT
REPLAYS = os.environ.get("DSIM_REPLAY_DIR", os.path.join(VERIF, "replays"))
EVIDENCE = os.environ.get("DSIM_EVIDENCE_DIR", os.path.join(VERIF, "evidence"))


class HarnessError(Exception):
    pass


# ------------------------------------------------------------------------------------------------ lane
class Lane:
    """Lives in a lane process: owns the executor processes and evaluates plans."""

    def __init__(self, root=None):
        self.workers = {}
        self.root = root
        self.counters = {"worker_spawns": 0, "hang_suspects": 0, "hang_unconfirmed": 0}

    def worker(self, engine, hashseed=None):
        if hashseed is None:
            hashseed = int(os.environ.get("DSIM_HASHSEED", "0"))
        key = (engine, hashseed)
        w = self.workers.get(key)
        if w is None:
            w = lane_mod.Worker(engine, hashseed, self.root)
            self.workers[key] = w
        if not w.alive():
            try:
                w.start()
            except lane_mod.WorkerDied as e:
                raise HarnessError("cannot start worker (%s): %s" % (engine, e))
            self.counters["worker_spawns"] += 1
        return w

    def fresh(self, engine, hashseed=None):
        if hashseed is None:
            hashseed = int(os.environ.get("DSIM_HASHSEED", "0"))
        w = self.workers.pop((engine, hashseed), None)
        if w is not None:
            w.stop()
        return self.worker(engine, hashseed)

    def close(self):
        for w in self.workers.values():
            w.stop()
        self.workers.clear()

    def run(self, plan, engine="jit", op_timeout=30.0, confirm_timeout=120.0, hashseed=None, confirm=True,
            line_budget=3000000):
        """Run a plan; wall-clock never decides alone. A timeout is only a suspicion: it is re-examined (a) in the
        interpreted engine under a deterministic line-event budget and, if that does not reproduce it, (b) by a solo
        replay in a fresh worker with a longer wall-clock budget. Only a confirmed expiry is reported as a hang."""
        w = self.worker(engine, hashseed)
        jr = w.run(plan, op_timeout=op_timeout)
        if jr["end"] == "harness":
            raise HarnessError("executor failed: %s" % jr.get("stderr"))
        if jr["end"] == "hang" and confirm:
            self.counters["hang_suspects"] += 1
            k = jr["at"]
            if line_budget and k is not None:
                if self.hangs(plan, "py-linebudget", upto=k, line_budget=line_budget, timeout=confirm_timeout):
                    jr["confirmed"] = "py-linebudget"
                    return jr
            if engine == "py":
                # interpreted and not reproducible under the line clock (or no budget defined for this world): a slow
                # op, not a hang we can prove - the caller treats it as inconclusive
                self.fresh(engine, hashseed)
                return jr
            w = self.fresh(engine, hashseed)
            jr2 = w.run(plan, op_timeout=confirm_timeout)
            if jr2["end"] == "harness":
                raise HarnessError("executor failed: %s" % jr2.get("stderr"))
            if jr2["end"] != "hang":
                self.counters["hang_unconfirmed"] += 1
            else:
                jr2["confirmed"] = "%s-wallclock" % engine
            return jr2
        return jr

    def hangs(self, plan, mode, upto=None, line_budget=3000000, timeout=120.0):
        """Does some op of the plan fail to return? mode 'py-linebudget': interpreted engine, deterministic line-event
        clock; otherwise compiled engine under a short wall-clock budget (used while minimising only)."""
        p = dict(plan)
        if upto is not None:
            p["ops"] = plan["ops"][:upto + 1]
        if mode == "py-linebudget":
            p["cfg"] = dict(plan.get("cfg", {}), line_budget=int(line_budget))
            jr = self.worker("py").run(p, op_timeout=max(timeout, 300.0))
            if jr["end"] == "hang":
                self.fresh("py")
                return False  # the line clock did not expire within the wall-clock allowance: not proven
            return any(o is not None and o.get("st") == "linebudget" for o in jr["obs"])
        jr = self.worker("jit").run(p, op_timeout=min(timeout, 15.0))
        return jr["end"] == "hang"


_LANE = None


def get_lane(root=None):
    global _LANE
    if _LANE is None:
        _LANE = Lane(root)
    return _LANE


def find_violations(spec, lane, plan, **kw):
    """Evaluate one plan: execute (engine(s) per spec) + judge. Returns (violations, journals)."""
    return spec.evaluate(lane, plan, **kw)


def same_failure(v, target):
    return v["prop"] == target["prop"] and v["oracle"] == target["oracle"]


def minimise(spec, lane, plan, target, budget_s=120.0):
    deadline = time.monotonic() + budget_s
    is_hang = target["oracle"].endswith(".hang")

    if is_hang:
        mode = target.get("confirmed", "jit-wallclock")

        def fails(cand):
            try:
                return lane.hangs(cand, mode)
            except HarnessError:
                return False
    else:
        def fails(cand):
            try:
                vs, _ = spec.evaluate(lane, cand)
            except HarnessError:
                return False
            return any(same_failure(v, target) for v in vs)

    # 1. cut everything after the failing op (the oracle stops at the first failure)
    at = target.get("at")
    small = dict(plan)
    if at is not None and at + 1 < len(plan["ops"]):
        cand = dict(plan)
        cand["ops"] = plan["ops"][:at + 1]
        if is_hang or fails(cand):
            small = cand
    wallclock_hang = is_hang and not target.get("confirmed", "").startswith("py-linebudget")
    max_tests = 8 if wallclock_hang else 400
    small, t1 = shrink.ddmin_ops(small, fails, deadline=deadline, max_tests=max_tests)
    t2 = 0
    cands = getattr(spec.world, "shrink_candidates", None)
    if cands is not None and not wallclock_hang:
        small, t2 = shrink.greedy(small, cands, fails, deadline=deadline)
        small, t3 = shrink.ddmin_ops(small, fails, deadline=deadline, max_tests=100)
        t2 += t3
    return small, t1 + t2


def write_replay(spec, lane, plan, target, orig_len, tests, meta):
    os.makedirs(REPLAYS, exist_ok=True)
    if target["oracle"].endswith(".hang"):
        v = dict(target)
        v["at"] = len(plan["ops"]) - 1
        jrs = []
    else:
        vs, jrs = spec.evaluate(lane, plan)
        v = next((x for x in vs if same_failure(x, target)), target)
    doc = {
        "property": target["prop"], "oracle": v["oracle"], "at": v.get("at"), "msg": v.get("msg"),
        "seed": meta.get("seed"), "base_seed": meta.get("base_seed"), "index": meta.get("index"),
        "confirmed": v.get("confirmed"),
        "tier": meta.get("tier"), "original_ops": orig_len, "minimised_ops": len(plan["ops"]),
        "shrink_tests": tests, "observation_digest": plan_mod.digest([j["obs"] for j in jrs]),
        "repo_source_hash": boot.source_hash(), "plan": plan,
        "how_to_replay": "cd /verif && ./check replay %s" % os.path.join(
            "replays", "%s-%s.json" % (target["prop"], meta.get("seed"))),
    }
    path = os.path.join(REPLAYS, "%s-%s.json" % (target["prop"], meta.get("seed")))
    with open(path, "w") as f:
        json.dump(doc, f, indent=1, allow_nan=True)
    return path, v


# ------------------------------------------------------------------------------------------ known findings
def load_known():
    p = os.path.join(VERIF, "known_findings.json")
    if not os.path.exists(p):
        return {"open": [], "fixed": []}
    with open(p) as f:
        return json.load(f)


def match_known(v, known):
    for kf in known.get("open", []):
        if kf["property"] != v["prop"]:
            continue
        orc = kf.get("oracle")
        if orc and (v["oracle"] not in orc if isinstance(orc, list) else orc != v["oracle"]):
            continue
        if kf.get("msg_regex") and not re.search(kf["msg_regex"], v.get("msg") or ""):
            continue
        if kf.get("requires_tags") and not set(kf["requires_tags"]) <= set(v.get("tags") or []):
            continue
        return kf
    return None


# ---------------------------------------------------------------------------------------------- chunks
def lane_chunk(args):
    """Runs in a lane process. One chunk = a list of run indices."""
    prop, tier, base_seed, indices, opts = args
    spec = spec_for(prop)
    lane = get_lane(opts.get("root"))
    known = load_known()
    res = {"runs": 0, "stats": {}, "sigs": {}, "violations": [], "known": [], "samples": [], "ops": 0,
           "digests": {}, "harness": None, "t_exec": 0.0}
    st = res["stats"]
    for i in indices:
        seed = plan_mod.run_seed(base_seed, prop, i)
        try:
            rng = plan_mod.Rng(seed)
            plan = spec.gen(rng, tier)
            plan["seed"] = seed
            plan["prop"] = prop
            plan["tier"] = tier
            t0 = time.monotonic()
            vs, jrs = spec.evaluate(lane, plan)
            res["t_exec"] += time.monotonic() - t0
        except HarnessError as e:
            res["harness"] = "seed %d: %s" % (seed, e)
            break
        except Exception:
            res["harness"] = "seed %d: %s" % (seed, traceback.format_exc()[-1500:])
            break
        res["runs"] += 1
        res["ops"] += len(plan["ops"])
        if opts.get("digests"):
            res["digests"][str(i)] = plan_mod.digest([plan, [j["obs"] for j in jrs]])
        s = spec.stats(plan, jrs)
        for k, val in s.items():
            if k.startswith("max."):
                st[k] = max(st.get(k, 0), val)
            elif k.startswith("hist."):
                h = st.setdefault(k, {})
                for b, c in val.items():
                    h[b] = h.get(b, 0) + c
            else:
                st[k] = st.get(k, 0) + val
        if s.get("nontrivial"):
            sig = spec.signature(plan)
            res["sigs"][plan_mod.digest(sig)] = 1
        if len(res["samples"]) < 1 and s.get("nontrivial") and len(json.dumps(plan)) < 6000:
            res["samples"].append(plan)
        if vs:
            v = vs[0]
            kf = match_known(v, known)
            if kf is not None:
                res["known"].append({"id": kf.get("id"), "seed": seed, "msg": v.get("msg")})
                continue
            try:
                small, tests = minimise(spec, lane, plan, v, budget_s=opts.get("shrink_s", 120.0))
                path, v2 = write_replay(spec, lane, small, v, len(plan["ops"]), tests,
                                        {"seed": seed, "base_seed": base_seed, "index": i, "tier": tier})
                kf = match_known(v2, known)
                if kf is not None:
                    res["known"].append({"id": kf.get("id"), "seed": seed, "msg": v2.get("msg")})
                    os.unlink(path)
                    continue
            except HarnessError as e:
                res["harness"] = "while minimising seed %d: %s" % (seed, e)
                break
            res["violations"].append({"prop": v2["prop"], "oracle": v2["oracle"], "at": v2.get("at"),
                                      "msg": v2.get("msg"), "seed": seed, "replay": path,
                                      "ops": len(small["ops"]), "orig_ops": len(plan["ops"])})
            break  # first violation ends this chunk
    for k, val in lane.counters.items():
        st["lane." + k] = val
    lane.counters = {k: 0 for k in lane.counters}
    return res


def lane_exit(_):
    lane = get_lane()
    lane.close()
    return True


# ------------------------------------------------------------------------------------------------ warm
def warm(props=None, verbose=True):
    """Populate the numba cache for the current sources with one worker (cold compile ~1-2 min), prune stale caches."""
    t0 = time.time()
    cdir = boot.cache_dir()
    os.makedirs(cdir, exist_ok=True)
    boot.prune_caches(cdir)
    lane = Lane()
    try:
        done = set()
        for prop in (props or sorted(PROPS)):
            spec = spec_for(prop)
            key = (spec.world.WORLD, tuple(spec.engines))
            if key in done:
                continue
            done.add(key)
            marker = os.path.join(cdir, "warm-%s-%s.ok" % (spec.world.WORLD, "+".join(spec.engines)))
            if os.path.exists(marker):
                continue
            for j in range(spec.warm_runs):
                rng = plan_mod.Rng(plan_mod.run_seed(12345, "warm-" + prop, j))
                p = spec.gen(rng, "quick")
                for eng in spec.engines:
                    jr = lane.run(p, engine=eng, op_timeout=900.0, confirm=False)
                    if jr["end"] == "harness":
                        raise HarnessError(jr.get("stderr"))
            with open(marker, "w") as f:
                f.write("ok\n")
            if verbose:
                print("warm: world %s ready after %.0fs" % (spec.world.WORLD, time.time() - t0), flush=True)
    finally:
        lane.close()


# ------------------------------------------------------------------------------------------------ main
def run_check(prop, tier, base_seed, opts):
    spec = spec_for(prop)
    t_start = time.time()
    budget = spec.budget(tier)
    wall = float(os.environ.get("DSIM_WALL", opts.get("wall") or budget["wall"]))
    max_runs = int(os.environ.get("DSIM_MAX_RUNS", opts.get("max_runs") or budget["max_runs"]))
    chunk = budget["chunk"]
    nlanes = int(os.environ.get("DSIM_LANES", opts.get("lanes") or min(16, os.cpu_count() or 4)))
    known = load_known()

    try:
        warm([prop], verbose=False)
    except HarnessError as e:
        print("HARNESS-ERROR: warm-up failed: %s" % e)
        return 2
    t_warm = time.time() - t_start

    agg = {"runs": 0, "ops": 0, "stats": {}, "sigs": set(), "violations": [], "known": [], "samples": [],
           "t_exec": 0.0, "digests": {}}
    # replays of defects that were repaired ('fixed:' entries) are re-executed first: they must stay quiet
    import glob
    reg = sorted(glob.glob(os.path.join(VERIF, "findings", "%s-*.json" % prop)))
    if reg and not opts.get("no_regress"):
        rl = Lane(opts.get("root"))
        try:
            for path in reg:
                with open(path) as f:
                    doc = json.load(f)
                vs, _ = spec.evaluate(rl, doc["plan"])
                if vs and match_known(vs[0], known) is None:
                    v = vs[0]
                    agg["violations"].append({"prop": prop, "oracle": v["oracle"], "at": v.get("at"),
                                              "msg": "regression replay fails (a repaired defect is back, or a new one breaks the same history): " + str(v.get("msg")),
                                              "seed": doc.get("seed"), "replay": path,
                                              "ops": len(doc["plan"]["ops"]), "orig_ops": doc.get("original_ops", 0)})
        except HarnessError as e:
            print("HARNESS-ERROR: regression replay failed: %s" % e)
            return 2
        finally:
            rl.close()
    agg["stats"]["regression_replays"] = len(reg)
    harness = None
    next_i = 0
    ctx = mp.get_context("fork")
    deadline = time.time() + wall
    with cf.ProcessPoolExecutor(max_workers=nlanes, mp_context=ctx) as pool:
        pending = set()

        def submit():
            nonlocal next_i
            if next_i >= max_runs:
                return False
            idx = list(range(next_i, min(next_i + chunk, max_runs)))
            next_i = idx[-1] + 1
            pending.add(pool.submit(lane_chunk, (prop, tier, base_seed, idx, opts)))
            return True

        for _ in range(nlanes * 2):
            submit()
        stop = False
        while pending:
            done, pending = cf.wait(pending, timeout=5.0, return_when=cf.FIRST_COMPLETED)
            for fut in done:
                try:
                    r = fut.result()
                except Exception:
                    harness = traceback.format_exc()[-1500:]
                    stop = True
                    continue
                agg["runs"] += r["runs"]
                agg["ops"] += r["ops"]
                agg["t_exec"] += r["t_exec"]
                agg["sigs"].update(r["sigs"])
                agg["known"] += r["known"]
                agg["digests"].update(r["digests"])
                if len(agg["samples"]) < 2:
                    agg["samples"] += r["samples"]
                merge_stats(agg["stats"], r["stats"])
                if r["violations"]:
                    agg["violations"] += r["violations"]
                    stop = True
                if r["harness"]:
                    harness = r["harness"]
                    stop = True
            if time.time() > deadline:
                stop = True
            if not stop:
                while len(pending) < nlanes * 2 and submit():
                    pass
            else:
                for f in list(pending):
                    if f.cancel():
                        pending.discard(f)
        # stop the executor processes held by the lanes
        try:
            list(pool.map(lane_exit, range(nlanes * 2), timeout=30))
        except Exception:
            pass

    wall_s = time.time() - t_start
    code = 0
    # known findings listed for this property are printed whenever they were met
    seen_known = {}
    for k in agg["known"]:
        seen_known.setdefault(k["id"], k)
    for kf in known.get("open", []):
        if kf["property"] == prop:
            hit = seen_known.get(kf.get("id"))
            print("KNOWN-FINDING: property=%s %s%s" % (prop, kf["what"],
                                                       " (met this run, e.g. seed %s)" % hit["seed"] if hit else ""))
    viol = dedupe(agg["violations"])
    for v in viol:
        print("VIOLATION property=%s replay=%s" % (v["prop"], v["replay"]))
        print("  oracle=%s at_op=%s seed=%s minimised %d -> %d ops: %s" % (
            v["oracle"], v["at"], v["seed"], v["orig_ops"], v["ops"], v["msg"]))
        code = 1
    if harness:
        print("HARNESS-ERROR: %s" % harness)
        if code == 0:
            code = 2
    write_evidence(spec, prop, tier, base_seed, agg, wall_s, t_warm, nlanes, len(viol))
    print("%s %s: %d runs (%d ops) in %.0fs wall (%.0fs warm-up), %d distinct non-trivial histories, %d violations%s"
          % (prop, tier, agg["runs"], agg["ops"], wall_s, t_warm, len(agg["sigs"]), len(viol),
             ", %d known-finding hits" % len(agg["known"]) if agg["known"] else ""))
    if opts.get("digest_out"):
        with open(opts["digest_out"], "w") as f:
            json.dump(agg["digests"], f, sort_keys=True)
    return code


def merge_stats(dst, src):
    for k, val in src.items():
        if k.startswith("max."):
            dst[k] = max(dst.get(k, 0), val)
        elif k.startswith("hist."):
            h = dst.setdefault(k, {})
            for b, c in val.items():
                h[b] = h.get(b, 0) + c
        else:
            dst[k] = dst.get(k, 0) + val


def dedupe(vs):
    seen = {}
    for v in vs:
        seen.setdefault(v["oracle"], v)
    return list(seen.values())


def write_evidence(spec, prop, tier, base_seed, agg, wall_s, t_warm, nlanes, nviol):
    os.makedirs(EVIDENCE, exist_ok=True)
    st = agg["stats"]
    faults = {k[6:]: v for k, v in sorted(st.items()) if k.startswith("fault.")}
    probes = {k[6:]: v for k, v in sorted(st.items()) if k.startswith("probe.")}
    judged = {k[7:]: v for k, v in sorted(st.items()) if k.startswith("judged.")}
    other = {k: v for k, v in sorted(st.items()) if not k.startswith(("fault.", "probe.", "judged."))}
    runs = max(agg["runs"], 0)
    search_s = max(wall_s - t_warm, 1e-9)
    samples = []
    for p in agg["samples"][:2]:
        samples.append({"seed": p.get("seed"), "cfg": p.get("cfg"),
                        "ops": [json.dumps(o, separators=(",", ":"))[:400] for o in p["ops"][:30]],
                        "ops_total": len(p["ops"])})
    if not samples:
        samples = [{"note": "no non-trivial run small enough to print"}]
    doc = {
        "property_id": prop, "tier": tier, "seed": int(base_seed), "level": "exploration",
        "coverage": {
            "evaluations": runs,
            "distinct_nontrivial": len(agg["sigs"]),
            "rule": spec.rule,
            "samples": samples,
            "simulated_ops": agg["ops"],
            "runs_per_hour": int(runs / search_s * 3600),
            "seeds": "run i uses seed sha256('%d:%s:i')[:12], i in [0,%d)" % (int(base_seed), prop, runs),
            "faults_fired": faults,
            "reach_probes": probes,
            "judged_observations": judged,
            "fault_free_runs": st.get("fault_free", 0),
            "counters": other,
            "components": spec.components,
            "lanes": nlanes,
            "warmup_s": round(t_warm, 1),
            "known_finding_hits": len(agg["known"]),
        },
        "assumptions": spec.assumptions,
        "wall_s": round(wall_s, 1),
        "violations": nviol,
    }
    with open(os.path.join(EVIDENCE, "%s.json" % prop), "w") as f:
        json.dump(doc, f, indent=1, allow_nan=False, default=str)


def replay(path):
    with open(path) as f:
        doc = json.load(f)
    prop = doc["property"]
    spec = spec_for(prop)
    lane = Lane()
    try:
        vs, jrs = spec.evaluate(lane, doc["plan"])
    finally:
        lane.close()
    dg = plan_mod.digest([j["obs"] for j in jrs])
    hit = [v for v in vs if v["oracle"] == doc["oracle"]]
    if hit:
        v = hit[0]
        print("VIOLATION property=%s replay=%s" % (prop, path))
        print("  oracle=%s at_op=%s: %s" % (v["oracle"], v.get("at"), v.get("msg")))
        print("  observation digest %s (%s)" % (dg, "identical to the recorded run" if dg == doc.get(
            "observation_digest") else "recorded: %s" % doc.get("observation_digest")))
        return 1
    if vs:
        print("replay fired a different oracle: %s" % vs[0])
        return 1
    print("replay of %s: no violation (not reproduced on this tree)" % path)
    return 0


def main(argv=None):
    ap = argparse.ArgumentParser(prog="check")
    ap.add_argument("what", help="property id (C03, C05, ...), 'replay', 'warm', 'selftest-determinism', 'selftest-sensitivity'")
    ap.add_argument("arg", nargs="?")
    ap.add_argument("--tier", default=os.environ.get("VERIF_TIER", "quick"))
    ap.add_argument("--wall", type=float)
    ap.add_argument("--max-runs", type=int, dest="max_runs")
    ap.add_argument("--lanes", type=int)
    ap.add_argument("--digest-out", dest="digest_out")
    ap.add_argument("--replay")
    a = ap.parse_args(argv)
    tier = a.tier if a.tier in ("quick", "thorough") else "quick"
    try:
        base_seed = int(os.environ.get("VERIF_SEED", "0"))
    except ValueError:
        base_seed = 0
    try:
        if a.what == "replay" or a.replay:
            return replay(a.replay or a.arg)
        if a.what == "warm":
            warm()
            return 0
        if a.what.startswith("selftest"):
            from . import selftest
            return selftest.main(a.what, tier, base_seed)
        if a.what not in PROPS:
            print("HARNESS-ERROR: unknown property %r" % a.what)
            return 2
        opts = {"wall": a.wall, "max_runs": a.max_runs, "lanes": a.lanes, "digest_out": a.digest_out,
                "digests": bool(a.digest_out)}
        return run_check(a.what, tier, base_seed, opts)
    except HarnessError as e:
        print("HARNESS-ERROR: %s" % e)
        return 2
    except Exception:
        print("HARNESS-ERROR: %s" % traceback.format_exc()[-2000:])
        return 2
