"""Seed derivation and the seeded generator toolbox. Everything random in a run derives from one integer."""
import hashlib
import json
import math
import random

import numpy as np


def run_seed(base_seed, prop, i):
    h = hashlib.sha256(("%d:%s:%d" % (int(base_seed), prop, int(i))).encode()).hexdigest()
    return int(h[:12], 16)


def canon(obj):
    return json.dumps(obj, sort_keys=True, separators=(",", ":"), allow_nan=True)


def digest(obj):
    return hashlib.sha256(canon(obj).encode()).hexdigest()[:16]


class Rng(random.Random):
    """random.Random with the geometric helpers the plan generators need (pure Python + numpy, no library code)."""

    def chance(self, p):
        return self.random() < p

    def logu(self, lo, hi):
        return math.exp(self.uniform(math.log(lo), math.log(hi)))

    def size(self, lo=1e-2, hi=1e2, nice=0.3):
        """A feature size in the declared domain; sometimes a 'nice' number (exact lattice placements)."""
        if self.chance(nice):
            return self.choice([0.01, 0.05, 0.1, 0.25, 0.5, 1.0, 2.0, 3.0, 5.0, 10.0, 50.0, 100.0])
        return self.logu(lo, hi)

    def vec(self, scale=1.0):
        return [self.gauss(0.0, scale) for _ in range(3)]

    def unit(self):
        while True:
            v = np.array(self.vec())
            n = np.linalg.norm(v)
            if n > 1e-6:
                return (v / n).tolist()

    def quat_rot(self):
        q = np.array([self.gauss(0, 1) for _ in range(4)])
        q /= np.linalg.norm(q)
        w, x, y, z = q
        return np.array([
            [1 - 2 * (y * y + z * z), 2 * (x * y - z * w), 2 * (x * z + y * w)],
            [2 * (x * y + z * w), 1 - 2 * (x * x + z * z), 2 * (y * z - x * w)],
            [2 * (x * z - y * w), 2 * (y * z + x * w), 1 - 2 * (x * x + y * y)]])

    def axis_rot(self):
        """One of the 24 proper axis permutations / 90-degree rotations (exact entries 0, +-1)."""
        perm = list(range(3))
        self.shuffle(perm)
        signs = [self.choice([-1.0, 1.0]) for _ in range(3)]
        R = np.zeros((3, 3))
        for i in range(3):
            R[i, perm[i]] = signs[i]
        if np.linalg.det(R) < 0:
            R[:, 0] *= -1.0
        return R + 0.0  # no -0.0

    def rot(self, p_axis=0.25, p_id=0.1):
        r = self.random()
        if r < p_id:
            return np.eye(3)
        if r < p_id + p_axis:
            return self.axis_rot()
        if r < p_id + p_axis + 0.1:
            # rotation about z only (parallel axes)
            a = self.uniform(-math.pi, math.pi)
            c, s = math.cos(a), math.sin(a)
            return np.array([[c, -s, 0.0], [s, c, 0.0], [0.0, 0.0, 1.0]])
        return self.quat_rot()

    def position(self, spread=None):
        if spread is None:
            spread = self.choice([0.0, 1.0, 1.0, 10.0, 100.0, 500.0])
        if spread == 0.0:
            return [0.0, 0.0, 0.0]
        if self.chance(0.3):
            return [float(self.randint(-3, 3)) * self.choice([0.5, 1.0]) for _ in range(3)]
        return [max(-570.0, min(570.0, self.gauss(0, spread))) for _ in range(3)]

    def pose(self, spread=None):
        T = np.eye(4)
        T[:3, :3] = self.rot()
        T[:3, 3] = self.position(spread)
        return T.tolist()


def pose_of(R, t):
    T = np.eye(4)
    T[:3, :3] = R
    T[:3, 3] = t
    return T
