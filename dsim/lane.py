"""Parent-side handle of one executor process: send a plan, read the write-ahead journal, survive crashes/hangs."""
import json
import os
import select
import signal
import subprocess
import sys
import tempfile
import time

from . import boot

PY = sys.executable


class WorkerDied(Exception):
    pass


class Worker:
    def __init__(self, engine="jit", hashseed=0, root=None, tag=""):
        self.engine = engine
        self.hashseed = hashseed
        self.root = root
        self.proc = None
        self.errf = None
        self.buf = b""
        self.tag = tag
        self.spawned = 0

    # -- process management -------------------------------------------------------------------------------
    def start(self, ready_timeout=900.0):
        self.stop()
        env = boot.worker_env(self.engine, self.hashseed, self.root)
        self.errf = tempfile.TemporaryFile(prefix="dsim-err-")
        self.proc = subprocess.Popen(
            [PY, "-u", os.path.join(boot.VERIF_ROOT, "dsim", "worker.py")],
            stdin=subprocess.PIPE, stdout=subprocess.PIPE, stderr=self.errf, env=env,
            cwd=boot.VERIF_ROOT, start_new_session=True)
        self.buf = b""
        self.spawned += 1
        line = self._readline(ready_timeout)
        if line != "READY":
            err = self.stderr_tail()
            self.stop()
            raise WorkerDied("worker did not start (%r): %s" % (line, err))

    def stop(self):
        if self.proc is not None:
            try:
                self.proc.stdin.close()
            except Exception:
                pass
            try:
                os.killpg(self.proc.pid, signal.SIGKILL)
            except Exception:
                pass
            try:
                self.proc.wait(timeout=10)
            except Exception:
                pass
            for f in (self.proc.stdout,):
                try:
                    f.close()
                except Exception:
                    pass
            self.proc = None
        if self.errf is not None:
            try:
                self.errf.close()
            except Exception:
                pass
            self.errf = None

    def alive(self):
        return self.proc is not None and self.proc.poll() is None

    def stderr_tail(self, n=3000):
        try:
            self.errf.flush()
            sz = self.errf.seek(0, 2)
            self.errf.seek(max(0, sz - n))
            return self.errf.read().decode("utf-8", "replace")
        except Exception:
            return ""

    def _readline(self, timeout):
        """One journal line, or None on timeout, or raises WorkerDied on EOF."""
        deadline = time.monotonic() + timeout
        fd = self.proc.stdout.fileno()
        while True:
            i = self.buf.find(b"\n")
            if i >= 0:
                line, self.buf = self.buf[:i], self.buf[i + 1:]
                return line.decode("utf-8", "replace")
            left = deadline - time.monotonic()
            if left <= 0:
                return None
            r, _, _ = select.select([fd], [], [], min(left, 1.0))
            if r:
                chunk = os.read(fd, 1 << 16)
                if not chunk:
                    raise WorkerDied("eof")
                self.buf += chunk

    # -- running a plan -----------------------------------------------------------------------------------
    def run(self, plan, op_timeout=120.0):
        """Execute a plan. Returns a journal dict:
        {"obs": [obs or None per op], "end": "ok"|"crash"|"hang"|"harness", "at": k, "signal": n, "stderr": str}
        """
        if not self.alive():
            self.start()
        nops = len(plan["ops"])
        obs = [None] * nops
        jr = {"obs": obs, "end": "ok", "at": None}
        try:
            self.proc.stdin.write((json.dumps({"cmd": "plan", "plan": plan}, allow_nan=True) + "\n").encode())
            self.proc.stdin.flush()
        except (BrokenPipeError, OSError):
            self.start()
            self.proc.stdin.write((json.dumps({"cmd": "plan", "plan": plan}, allow_nan=True) + "\n").encode())
            self.proc.stdin.flush()
        inflight = None
        while True:
            try:
                line = self._readline(op_timeout)
            except WorkerDied:
                rc = None
                try:
                    rc = self.proc.wait(timeout=10)
                except Exception:
                    pass
                jr["end"] = "crash"
                jr["at"] = inflight
                jr["signal"] = -rc if (rc is not None and rc < 0) else rc
                jr["stderr"] = self.stderr_tail()
                self.stop()
                return jr
            if line is None:
                jr["end"] = "hang"
                jr["at"] = inflight
                jr["stderr"] = self._dump_and_kill()
                return jr
            if line == "E":
                return jr
            if line.startswith("B "):
                inflight = int(line[2:])
            elif line.startswith("O "):
                _, k, payload = line.split(" ", 2)
                obs[int(k)] = json.loads(payload)
                inflight = None
            elif line.startswith("X "):
                jr["end"] = "harness"
                jr["at"] = inflight
                jr["stderr"] = json.loads(line[2:])
                return jr

    def _dump_and_kill(self):
        tail = ""
        try:
            os.kill(self.proc.pid, signal.SIGABRT)  # faulthandler prints the Python stack of the hung op
            self.proc.wait(timeout=5)
        except Exception:
            pass
        tail = self.stderr_tail()
        self.stop()
        return tail
