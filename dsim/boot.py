"""Worker bootstrap: environment seams that must be in place *before* numba / distance3d are imported.

* DSIM_REPO       root that contains the ``distance3d`` package (default /repo)
* DSIM_ENGINE     "jit" (as installed) or "py" (NUMBA_DISABLE_JIT=1)
* NUMBA_CACHE_DIR private, keyed by a hash of the library sources, so stale machine code can never run
* open3d          cannot be loaded in this sandbox (libusb missing): inert stub
"""
import hashlib
import os
import sys
import types

VERIF_ROOT = os.path.dirname(os.path.dirname(os.path.abspath(__file__)))


def repo_root():
    return os.environ.get("DSIM_REPO", "/repo")


def source_hash(root=None):
    root = root or repo_root()
    h = hashlib.sha256()
    base = os.path.join(root, "distance3d")
    for dp, dn, fn in sorted(os.walk(base)):
        dn.sort()
        if os.path.basename(dp) in ("__pycache__", "test"):
            continue
        for f in sorted(fn):
            if f.endswith(".py"):
                p = os.path.join(dp, f)
                h.update(os.path.relpath(p, base).encode())
                with open(p, "rb") as fh:
                    h.update(fh.read())
    return h.hexdigest()[:16]


def cache_root():
    return os.environ.get("DSIM_CACHE_ROOT", os.path.join(VERIF_ROOT, ".nbcache"))


def cache_dir(root=None):
    return os.path.join(cache_root(), source_hash(root))


def worker_env(engine="jit", hashseed=0, root=None, extra=None):
    """Environment for a worker subprocess."""
    env = dict(os.environ)
    root = root or repo_root()
    env["DSIM_REPO"] = root
    env["DSIM_ENGINE"] = engine
    env["PYTHONHASHSEED"] = str(hashseed)
    env["NUMBA_CACHE_DIR"] = cache_dir(root)
    for k in ("OMP_NUM_THREADS", "OPENBLAS_NUM_THREADS", "MKL_NUM_THREADS", "NUMBA_NUM_THREADS"):
        env[k] = "1"
    if engine == "py":
        env["NUMBA_DISABLE_JIT"] = "1"
    else:
        env.pop("NUMBA_DISABLE_JIT", None)
    env["PYTHONDONTWRITEBYTECODE"] = "1"
    env.pop("COVERAGE_PROCESS_START", None)
    if extra:
        env.update(extra)
    return env


class _Stub(types.ModuleType):
    """Inert stand-in for open3d: any attribute is another stub, any call returns a stub."""

    def __getattr__(self, name):
        if name.startswith("__") and name.endswith("__"):
            raise AttributeError(name)
        child = _Stub(self.__name__ + "." + name)
        object.__setattr__(self, name, child)
        return child

    def __call__(self, *a, **k):
        return _Stub(self.__name__ + "()")

    def __iter__(self):
        return iter(())

    def __mro_entries__(self, bases):
        return (object,)


def install_open3d_stub():
    if "open3d" in sys.modules:
        return
    try:
        import open3d  # noqa: F401
        return
    except Exception:
        for k in [k for k in sys.modules if k == "open3d" or k.startswith("open3d.")]:
            del sys.modules[k]
    stub = _Stub("open3d")
    stub.__path__ = []
    stub.__stubbed__ = True
    sys.modules["open3d"] = stub
    for sub in ("geometry", "utility", "visualization", "io"):
        sys.modules["open3d." + sub] = getattr(stub, sub)


def setup_in_worker():
    """Call first thing inside a worker process (env already set by worker_env)."""
    root = repo_root()
    if sys.path[0] != root:
        sys.path.insert(0, root)
    os.makedirs(os.environ.get("NUMBA_CACHE_DIR", cache_dir(root)), exist_ok=True)
    install_open3d_stub()
    import warnings
    warnings.filterwarnings("ignore")
    import distance3d
    got = os.path.dirname(os.path.dirname(os.path.abspath(distance3d.__file__)))
    if os.path.realpath(got) != os.path.realpath(root):
        raise RuntimeError("distance3d imported from %s, expected %s" % (got, root))


def prune_caches(keep):
    import shutil
    cr = cache_root()
    if not os.path.isdir(cr):
        return
    for d in os.listdir(cr):
        p = os.path.join(cr, d)
        if p != keep and os.path.isdir(p):
            shutil.rmtree(p, ignore_errors=True)
