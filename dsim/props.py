"""Property -> world / engines / budgets / evaluation strategy."""
import importlib


class Spec:
    engines = ["jit"]
    warm_runs = 6
    components = {
        "real": ["distance3d (from /repo working tree, numba-compiled as installed)", "numpy", "numba", "scipy"],
        "stub": ["open3d (cannot be loaded in this sandbox: inert stub; only visualisation and io.load_mesh use it)",
                 "np.random.shuffle (replaced by the permutation recorded in the plan)"],
    }
    assumptions = []
    rule = ""
    budgets = {"quick": {"wall": 45, "max_runs": 10 ** 9, "chunk": 40},
               "thorough": {"wall": 900, "max_runs": 10 ** 9, "chunk": 40}}

    def __init__(self, prop, world_name):
        self.prop = prop
        self.world = importlib.import_module("dsim.worlds." + world_name)

    def budget(self, tier):
        return self.budgets[tier]

    def gen(self, rng, tier):
        return self.world.gen(rng, tier, self.prop)

    def signature(self, plan):
        return self.world.signature(plan)

    def end_violations(self, plan, jr, engine="jit"):
        """Process-level outcomes: crash / confirmed hang / step budgets are violations of the running property."""
        w = self.world.WORLD
        out = []
        if jr["end"] == "crash":
            k = jr.get("at")
            op = plan["ops"][k]["op"] if k is not None and k < len(plan["ops"]) else "?"
            out.append({"prop": self.prop, "oracle": "%s.crash" % w, "at": k,
                        "msg": "executor process died (signal/exit %s) while running op %s [%s engine]" % (
                            jr.get("signal"), op, engine)})
        elif jr["end"] == "hang" and engine == "py" and jr.get("confirmed") != "py-linebudget":
            # the interpreted engine is 10-100x slower; without the deterministic line clock a wall-clock expiry cannot
            # tell a long op from an endless one, so it is counted, not reported
            jr["inconclusive"] = True
        elif jr["end"] == "hang":
            k = jr.get("at")
            op = plan["ops"][k]["op"] if k is not None and k < len(plan["ops"]) else "?"
            how = {"py-linebudget": "reproduced in the interpreted engine: the op exceeds the deterministic "
                                    "line-event budget"}.get(jr.get("confirmed"),
                                                             "confirmed by a solo replay in a fresh process with a "
                                                             "longer budget")
            out.append({"prop": self.prop, "oracle": "%s.hang" % w, "at": k, "confirmed": jr.get("confirmed"),
                        "msg": "op %s did not return within the wall-clock budget [%s engine]; %s" % (op, engine, how)})
        return out

    # every n-th run (by seed) is executed a second time in the interpreted engine under the line-event clock and
    # judged by the same oracle: both engines are exercised by every property, and a loop that never ends shows up as
    # a deterministic 'linebudget' observation
    py_every = {"quick": 40, "thorough": 8}
    # generous on purpose: the line clock has to tell an endless loop from a long one (a tree-vs-tree query on two
    # 400-box trees, a support query on a 5000-vertex ring mesh), not to rate performance
    py_line_budget = 30000000

    def wants_py(self, plan):
        n = self.py_every.get(plan.get("tier", "quick"), 0)
        return bool(n) and int(plan.get("seed", 1)) % n == 0

    def judge_world(self, plan):
        return self.world

    def evaluate(self, lane, plan, **kw):
        W = self.judge_world(plan)
        kw.setdefault("line_budget", self.py_line_budget)  # also the budget of the hang-confirmation stage
        jr = lane.run(plan, engine=self.engines[0], **kw)
        vs = W.judge(plan, jr, self.prop)
        ev = self.end_violations(plan, jr, self.engines[0])
        jrs = [jr]
        if not vs and not ev and self.wants_py(plan):
            p2 = dict(plan)
            p2["cfg"] = dict(plan.get("cfg", {}), line_budget=self.py_line_budget)
            jp = lane.run(p2, engine="py", **kw)
            vp = W.judge(plan, jp, self.prop) + self.end_violations(plan, jp, "py")
            for v in vp:
                v["msg"] = "[interpreted engine] " + str(v.get("msg"))
                v["engine"] = "py"
            vs += vp
            jrs.append(jp)
        w = W.WORLD
        vs += [dict(v, oracle=v["oracle"].replace("%s." % self.world.WORLD, "%s." % w, 1)) for v in ev]
        vs.sort(key=lambda v: (v["at"] if v["at"] is not None else 10 ** 9))
        return vs, jrs

    def stats(self, plan, jrs):
        s = self.judge_world(plan).stats(plan, jrs[0])
        if any(j.get("inconclusive") for j in jrs):
            s["interpreted_wallclock_expiries_not_judged"] = 1
        if len(jrs) > 1:
            s["runs_also_in_interpreted_engine"] = 1
            s["line_events_interpreted"] = sum((o or {}).get("lines", 0) for o in jrs[1]["obs"])
        return s


class C05(Spec):
    py_line_budget = 300000000
    rule = ("one run = one seeded history on 1-3 AabbTree objects (insertion batches of seeded sizes/modes/permutations "
            "interleaved with box and tree-tree queries, then a sweep that uses every inserted box as a query); "
            "non-trivial = at least one non-empty insertion followed by at least one judged query on a non-empty tree; "
            "distinct = distinct history signatures (sequence of op kinds, target slots, modes, flags and batch-size "
            "buckets)")
    assumptions = [
        "brute-force list model + closed-interval test is the definition of the expected answer",
        "np.random.shuffle may return any permutation (the simulator picks it)",
        "a clean batch is evidence, not proof (seeded sampling of histories)",
    ]
    budgets = {"quick": {"wall": 40, "max_runs": 10 ** 9, "chunk": 25},
               "thorough": {"wall": 900, "max_runs": 10 ** 9, "chunk": 25}}

    def wants_py(self, plan):
        # long chains are O(n^2) to build; interpreted they would eat the whole budget
        nbox = sum(len(op.get("boxes", ())) for op in plan["ops"] if op["op"] == "ins")
        return nbox <= 150 and super().wants_py(plan)


class KSpec(Spec):
    warm_runs = 40
    assumptions = [
        "closed-form support values / membership functions in dsim/geom.py are the definition of the shapes",
        "a 'twin' (brand-new collider built at the model's current pose) is the definition of 'fresh'",
        "Python-level np.empty is zero-filled in the executor so that uninitialised simplex rows cannot make a run "
        "irreproducible",
        "a clean batch is evidence, not proof (seeded sampling of histories)",
    ]
    budgets = {"quick": {"wall": 60, "max_runs": 10 ** 9, "chunk": 20},
               "thorough": {"wall": 900, "max_runs": 10 ** 9, "chunk": 20}}


class C03(KSpec):
    rule = ("one run = one seeded history on 1-4 collider slots (support queries along seeded / axis-aligned / "
            "sign-boundary / tie directions, bursts of cache-warming queries, narrow-phase calls as history-making ops, "
            "update_pose), every support answer judged against closed forms and against a cold twin; non-trivial = a "
            "state-changing op (update_pose, warm burst, narrow-phase call) is followed by a judged support query on "
            "that history; distinct = distinct history signatures (op kinds, slots, collider kinds, entry points, "
            "delivery/dup flags)")


class C14(KSpec):
    rule = ("one run = one seeded history of update_pose calls (fresh array / item of a pose stack / duplicated) "
            "interleaved with support, aabb, center, first_vertex, collider2origin and narrow-phase queries, each "
            "compared with a twin built directly at the last pose; non-trivial = at least one update_pose followed by "
            "a judged query; distinct = distinct history signatures")


class C19(KSpec):
    warm_runs = 40

    def __init__(self, prop, world_name):
        super().__init__(prop, world_name)
        import importlib
        self.world_r = importlib.import_module("dsim.worlds.R")

    def gen(self, rng, tier):
        if rng.chance(0.12):  # self_collision.detect / detect_any are narrow-phase entry points too
            return self.world_r.gen(rng, tier, self.prop)
        return self.world.gen(rng, tier, self.prop)

    def judge_world(self, plan):
        return self.world_r if plan["world"] == "R" else self.world

    def signature(self, plan):
        return plan["world"] + self.judge_world(plan).signature(plan)

    rule = ("one run = one seeded history of narrow-phase calls (all GJK flavours, EPA, MPR) on 1-4 collider slots "
            "incl. identical object twice, nested, touching, hair's-breadth gaps, needle/flat shapes, zero-volume hulls, "
            "lattice placements, with pose changes and cache-warming bursts in between - or (12 % of the runs) a BVH "
            "history whose detect / detect_any calls are clocked per gjk call; the virtual clock counts support "
            "evaluations per collider (budget 1000); non-trivial = at least one narrow-phase call executed under the "
            "clock; distinct = distinct history signatures")


class C06(Spec):
    warm_runs = 25
    py_line_budget = 100000000  # detect + the all-pairs twin verdicts take up to ~10^7 interpreted lines per op
    rule = ("one run = one seeded history on 1-2 BoundingVolumeHierarchy objects over real UrdfTransformManagers loaded "
            "from generated URDF text (chains and branching trees, sphere/box/cylinder geometry) plus free colliders "
            "(capsule, cone, ellipsoid, mesh, ...) with seeded asymmetric whitelists: set_joint / add_transform changes, "
            "update_collider_poses (also duplicated), then broad-phase queries and detect / detect_any, each judged "
            "against the transform manager, brute-force AABB pairs and all-pairs narrow phase on fresh twins; "
            "non-trivial = at least one joint/pose change followed by a refresh and a judged query; distinct = distinct "
            "history signatures (topology, geometry kinds, op sequence)")
    assumptions = [
        "the real pytransform3d transform manager defines 'current transform'",
        "the narrow phase (jolt, libccd, MPR unanimous and clearer than 1e-3*L) is the yardstick for 'colliding'; "
        "pairs inside the grazing band or without unanimity are don't-care",
        "queries issued while a change is pending (before update_collider_poses) are executed but not judged",
        "a clean batch is evidence, not proof (seeded sampling of histories)",
    ]
    budgets = {"quick": {"wall": 75, "max_runs": 10 ** 9, "chunk": 10},
               "thorough": {"wall": 1200, "max_runs": 10 ** 9, "chunk": 10}}


class C16(Spec):
    warm_runs = 12
    py_line_budget = 0  # a contact_forces op legitimately takes 10^7..10^8 interpreted lines: wall-clock watchdog only

    def wants_py(self, plan):
        # finely tessellated bodies take minutes per call when interpreted
        for op in plan["ops"]:
            if op["op"] == "body" and op["kind"] in ("cylinder", "capsule"):
                import math
                if 2 * math.pi * op["params"]["radius"] / op["params"]["hint"] > 24:
                    return False
        return super().wants_py(plan)
    rule = ("one run = one seeded history on 2-3 hydroelastic RigidBody objects from the six factories (general "
            "rotations of all bodies): contact_forces / find_contact_surface calls that re-express body 1 in place, "
            "duplicated calls, changing partners, update_pose before the first re-expression, Young's modulus changes; "
            "every contact_forces result is compared with fresh twins built from the world-frame geometry in seeded "
            "body frames (history independence), with the swapped call, with a commonly moved pair, and f12 = -f21; "
            "non-trivial = a judged contact_forces call on a body that an earlier call has already re-expressed; "
            "distinct = distinct history signatures")
    assumptions = [
        "the world-frame geometry kept by the executor (plain numpy: pose applied to the factory's vertices) defines "
        "the physical scene; contact queries must not change it",
        "tolerance 5% of the force magnitude plus a floor of 1e-7*E*L^3 for vanishing contacts; flags compared only for "
        "forces above 100x that floor",
        "update_pose after an in-place re-expression is not exercised (C16 does not define it)",
        "a clean batch is evidence, not proof (seeded sampling of histories)",
    ]
    budgets = {"quick": {"wall": 75, "max_runs": 10 ** 9, "chunk": 10},
               "thorough": {"wall": 1200, "max_runs": 10 ** 9, "chunk": 10}}


class C20(Spec):
    engines = ["jit", "py"]
    warm_runs = 30
    components = dict(Spec.components, real=Spec.components["real"] + [
        "the same sources interpreted (NUMBA_DISABLE_JIT=1) as second replica", "pytransform3d transform managers"])
    rule = ("one run = one plan (a stateful history from Worlds T/K/R/H or a flat corpus of calls of public jitted "
            "functions, World E) executed in two engine replicas - numba-compiled as installed and interpreted with "
            "NUMBA_DISABLE_JIT=1 - whose journals are compared op by op (outcome class and exception type first, then "
            "values under per-kind comparators with the don't-care bands of the respective properties); non-trivial = "
            "at least two ops completed in both replicas; distinct = distinct plan signatures")
    assumptions = [
        "closed-form results are compared to 1e-9 relative, iterative ones within the accuracy of C01/C07-C09, "
        "booleans only outside the 1e-3*L clearance band, AABB set results only when no box pair is within 1e-9*L of "
        "touching; MPR depth and the EPA vector are not compared (they depend on ulp-level ties between vertices)",
        "closest points of primitive distance functions are compared only for non-degenerate (seeded generic) placements",
        "a clean batch is evidence, not proof (seeded sampling)",
    ]
    budgets = {"quick": {"wall": 90, "max_runs": 10 ** 9, "chunk": 6},
               "thorough": {"wall": 1500, "max_runs": 10 ** 9, "chunk": 6}}

    def stats(self, plan, jrs):
        return self.world.stats(plan, jrs)

    def evaluate(self, lane, plan, **kw):
        budget = {"T": 300000000, "K": 30000000, "R": 100000000, "E": 30000000, "H": 0}.get(plan["world"], 0)
        kw.setdefault("line_budget", budget)
        ja = lane.run(plan, engine="jit", **kw)
        jb = lane.run(plan, engine="py", **kw)  # no tracing here (10x slower); the line clock only confirms suspects
        vs = []
        for eng, j in (("jit", ja), ("py", jb)):
            if j["end"] == "hang":
                vs += [dict(v, oracle="X.hang") for v in self.end_violations(plan, j, eng)]
        if jb.get("inconclusive"):
            return vs, [ja, jb]  # nothing to compare the compiled journal with
        if not vs:
            try:
                vs = self.world.compare(plan, ja, jb)
            except RuntimeError as e:
                from .runner import HarnessError
                raise HarnessError(str(e))
        return vs, [ja, jb]


_SPECS = {
    "C03": (C03, "K"),
    "C20": (C20, "X"),
    "C16": (C16, "H"),
    "C06": (C06, "R"),
    "C05": (C05, "T"),
    "C14": (C14, "K"),
    "C19": (C19, "K"),
}
PROPS = dict(_SPECS)


def spec_for(prop):
    cls, world = _SPECS[prop]
    return cls(prop, world)
