"""Property -> world / engines / budgets / evaluation strategy."""
import importlib


class Spec:
    engines = ["jit"]
    warm_runs = 6
    components = {
        "real": ["distance3d (from /repo working tree, numba-compiled as installed)", "numpy", "numba", "scipy"],
        "stub": ["open3d (cannot be loaded in this sandbox: inert stub; only visualisation and io.load_mesh use it)",
                 "np.random.shuffle (replaced by the permutation recorded in the plan)"],
    }
    assumptions = []
    rule = ""
    budgets = {"quick": {"wall": 45, "max_runs": 10 ** 9, "chunk": 40},
               "thorough": {"wall": 900, "max_runs": 10 ** 9, "chunk": 40}}

    def __init__(self, prop, world_name):
        self.prop = prop
        self.world = importlib.import_module("dsim.worlds." + world_name)

    def budget(self, tier):
        return self.budgets[tier]

    def gen(self, rng, tier):
        return self.world.gen(rng, tier, self.prop)

    def signature(self, plan):
        return self.world.signature(plan)

    def stats(self, plan, jrs):
        return self.world.stats(plan, jrs[0])

    def end_violations(self, plan, jr, engine="jit"):
        """Process-level outcomes: crash / confirmed hang / step budgets are violations of the running property."""
        w = self.world.WORLD
        out = []
        if jr["end"] == "crash":
            k = jr.get("at")
            op = plan["ops"][k]["op"] if k is not None and k < len(plan["ops"]) else "?"
            out.append({"prop": self.prop, "oracle": "%s.crash" % w, "at": k,
                        "msg": "executor process died (signal/exit %s) while running op %s [%s engine]" % (
                            jr.get("signal"), op, engine)})
        elif jr["end"] == "hang":
            k = jr.get("at")
            op = plan["ops"][k]["op"] if k is not None and k < len(plan["ops"]) else "?"
            out.append({"prop": self.prop, "oracle": "%s.hang" % w, "at": k,
                        "msg": "op %s did not return within the wall-clock budget, confirmed by a solo replay in a "
                               "fresh process [%s engine]" % (op, engine)})
        return out

    def evaluate(self, lane, plan, **kw):
        jr = lane.run(plan, engine=self.engines[0], **kw)
        vs = self.world.judge(plan, jr, self.prop)
        vs += self.end_violations(plan, jr, self.engines[0])
        vs.sort(key=lambda v: (v["at"] if v["at"] is not None else 10 ** 9))
        return vs, [jr]


class C05(Spec):
    rule = ("one run = one seeded history on 1-3 AabbTree objects (insertion batches of seeded sizes/modes/permutations "
            "interleaved with box and tree-tree queries, then a sweep that uses every inserted box as a query); "
            "non-trivial = at least one non-empty insertion followed by at least one judged query on a non-empty tree; "
            "distinct = distinct history signatures (sequence of op kinds, target slots, modes, flags and batch-size "
            "buckets)")
    assumptions = [
        "brute-force list model + closed-interval test is the definition of the expected answer",
        "np.random.shuffle may return any permutation (the simulator picks it)",
        "a clean batch is evidence, not proof (seeded sampling of histories)",
    ]
    budgets = {"quick": {"wall": 40, "max_runs": 10 ** 9, "chunk": 100},
               "thorough": {"wall": 900, "max_runs": 10 ** 9, "chunk": 100}}


_SPECS = {
    "C05": (C05, "T"),
}
PROPS = dict(_SPECS)


def spec_for(prop):
    cls, world = _SPECS[prop]
    return cls(prop, world)
