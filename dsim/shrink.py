"""Minimiser: ddmin over the op list, then world-specific argument simplification (greedy).

``fails(plan) -> bool`` re-executes the candidate in a worker and re-judges it; a candidate is accepted only when the
same (property, oracle id) fires again.
"""
import copy
import time


def ddmin_ops(plan, fails, keep=lambda op: False, deadline=None, max_tests=400):
    ops = list(plan["ops"])
    tests = [0]

    def test(cand_ops):
        if deadline is not None and time.monotonic() > deadline:
            return False
        if tests[0] >= max_tests:
            return False
        tests[0] += 1
        p = dict(plan)
        p["ops"] = cand_ops
        return fails(p)

    n = 2
    while len(ops) >= 2:
        chunk = max(1, len(ops) // n)
        reduced = False
        i = 0
        while i < len(ops):
            cand = ops[:i] + ops[i + chunk:]
            removed = ops[i:i + chunk]
            if cand and not all(keep(o) for o in removed) and test(cand):
                ops = cand
                n = max(n - 1, 2)
                reduced = True
            else:
                i += chunk
        if not reduced:
            if chunk == 1:
                break
            n = min(len(ops), n * 2)
    out = dict(plan)
    out["ops"] = ops
    return out, tests[0]


def greedy(plan, candidates, fails, deadline=None, max_tests=300):
    """candidates(plan) yields simpler plans; restart from the first one that still fails."""
    tests = 0
    progress = True
    while progress:
        progress = False
        for cand in candidates(copy.deepcopy(plan)):
            if deadline is not None and time.monotonic() > deadline:
                return plan, tests
            if tests >= max_tests:
                return plan, tests
            tests += 1
            if fails(cand):
                plan = cand
                progress = True
                break
    return plan, tests
