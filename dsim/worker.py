"""Executor process: a dumb interpreter of plans. Real distance3d from DSIM_REPO, engine per DSIM_ENGINE.

Protocol (line oriented): the parent writes one JSON plan per line on stdin; for every op k the worker writes the
write-ahead line ``B k`` *before* running it and ``O k <json>`` after; ``E`` ends the plan. All choices were made
by the plan generator - there is no PRNG and no clock in here.
"""
import faulthandler
import json
import os
import sys
import traceback


class StepBudgetExceeded(Exception):
    """Virtual clock (support evaluations) ran past its budget."""


class LineBudgetExceeded(BaseException):
    """Virtual clock (interpreted line events) ran past its budget. BaseException: must not be swallowed."""


class Skip(Exception):
    """Op refers to a slot that does not exist (removed by the minimiser)."""


def jsonable(x):
    import numpy as np
    if x is None or isinstance(x, (bool, int, float, str)):
        return x
    if isinstance(x, (np.bool_,)):
        return bool(x)
    if isinstance(x, np.integer):
        return int(x)
    if isinstance(x, np.floating):
        return float(x)
    if isinstance(x, np.ndarray):
        return x.tolist()
    if isinstance(x, (list, tuple)):
        return [jsonable(v) for v in x]
    if isinstance(x, dict):
        return {str(k): jsonable(v) for k, v in x.items()}
    return repr(type(x).__name__)


class LineClock:
    """Counts 'line' trace events = the deterministic clock of the interpreted engine."""

    def __init__(self):
        self.count = 0
        self.budget = 0

    def start(self, budget):
        self.count = 0
        self.budget = budget
        sys.settrace(self._global)

    def stop(self):
        sys.settrace(None)
        return self.count

    def _global(self, frame, event, arg):
        return self._local

    def _local(self, frame, event, arg):
        if event == "line":
            self.count += 1
            if self.count > self.budget:
                sys.settrace(None)
                raise LineBudgetExceeded(self.count)
        return self._local


def load_world(name):
    if name == "T":
        from dsim.worlds import T_exec as m
    elif name == "K":
        from dsim.worlds import K_exec as m
    elif name == "R":
        from dsim.worlds import R_exec as m
    elif name == "H":
        from dsim.worlds import H_exec as m
    elif name == "E":
        from dsim.worlds import E_exec as m
    else:
        raise ValueError("unknown world %r" % name)
    return m


def run_plan(plan, emit):
    world = load_world(plan["world"])
    cfg = plan.get("cfg", {})
    ex = world.Exec(cfg)
    line_budget = int(cfg.get("line_budget", 0))
    clock = LineClock() if line_budget else None
    for k, op in enumerate(plan["ops"]):
        emit("B %d" % k)
        try:
            if clock is not None:
                clock.start(line_budget)
            try:
                obs = ex.run(op)
            finally:
                if clock is not None:
                    n = clock.stop()
            if obs is None:
                obs = {}
            obs.setdefault("st", "ok")
            if clock is not None:
                obs["lines"] = n
        except Skip:
            obs = {"st": "skip"}
        except StepBudgetExceeded as e:
            obs = {"st": "budget", "clock": jsonable(getattr(e, "args", [None])[0])}
        except LineBudgetExceeded as e:
            obs = {"st": "linebudget", "lines": int(e.args[0])}
        except Exception as e:  # the library raised: that is an observation, not a harness failure
            tb = traceback.extract_tb(e.__traceback__)
            where = ""
            for fr in reversed(tb):
                if "/dsim/" not in fr.filename:
                    where = "%s:%d" % (os.path.basename(fr.filename), fr.lineno)
                    break
            harness = all("/dsim/" in fr.filename for fr in tb)
            obs = {"st": "exc", "exc": type(e).__name__, "msg": str(e)[:300], "where": where}
            if harness:
                obs["harness"] = True
            if getattr(e, "dsim_ctx", None):
                obs["ctx"] = e.dsim_ctx
        emit("O %d %s" % (k, json.dumps(jsonable(obs), allow_nan=True, separators=(",", ":"))))
    ex.close()
    emit("E")


def main():
    # journal goes to the original stdout; anything the library prints is diverted to stderr
    jfd = os.dup(1)
    os.dup2(2, 1)
    journal = os.fdopen(jfd, "w", buffering=1)
    faulthandler.enable(file=sys.stderr, all_threads=True)
    here = os.path.dirname(os.path.dirname(os.path.abspath(__file__)))
    if here not in sys.path:
        sys.path.insert(1, here)
    from dsim import boot
    boot.setup_in_worker()
    from dsim import seams
    seams.install()

    def emit(line):
        journal.write(line + "\n")
        journal.flush()

    emit("READY")
    for line in sys.stdin:
        line = line.strip()
        if not line:
            continue
        msg = json.loads(line)
        if msg.get("cmd") == "quit":
            break
        try:
            run_plan(msg["plan"], emit)
        except Exception:
            emit("X " + json.dumps(traceback.format_exc()[-2000:]))
    journal.close()


if __name__ == "__main__":
    # run as dsim.worker (not __main__) so that Skip / StepBudgetExceeded are the same classes the executors import
    _here = os.path.dirname(os.path.dirname(os.path.abspath(__file__)))
    if _here not in sys.path:
        sys.path.insert(0, _here)
    from dsim.worker import main as _main
    _main()
