"""Seams the simulator owns inside the worker (harness side; nothing in /repo is touched)."""
import numpy as np

_state = {"perm": None, "shuffles": 0}
_orig_shuffle = np.random.shuffle


def _shuffle(x):
    """np.random.shuffle replacement: applies the permutation the plan carries (any permutation is a legal
    outcome of the real RNG). Without a pending permutation it is the identity, never the global RNG."""
    perm = _state["perm"]
    _state["shuffles"] += 1
    if perm is None:
        return
    _state["perm"] = None
    n = len(x)
    perm = [p for p in perm if p < n]
    seen = set(perm)
    perm += [i for i in range(n) if i not in seen]  # a shrunk plan may carry a permutation of another length
    x[:] = np.asarray(x)[perm]


def set_next_permutation(perm):
    _state["perm"] = None if perm is None else list(perm)


def shuffles():
    return _state["shuffles"]


def install():
    np.random.shuffle = _shuffle
    np.random.seed(0)
