"""Seams the simulator owns inside the worker (harness side; nothing in /repo is touched)."""
import numpy as np

_state = {"perm": None, "shuffles": 0}
_orig_shuffle = np.random.shuffle


def _shuffle(x):
    """np.random.shuffle replacement: applies the permutation the plan carries (any permutation is a legal
    outcome of the real RNG). Without a pending permutation it is the identity, never the global RNG."""
    perm = _state["perm"]
    _state["shuffles"] += 1
    if perm is None:
        return
    _state["perm"] = None
    n = len(x)
    perm = [p for p in perm if p < n]
    seen = set(perm)
    perm += [i for i in range(n) if i not in seen]  # a shrunk plan may carry a permutation of another length
    x[:] = np.asarray(x)[perm]


def set_next_permutation(perm):
    _state["perm"] = None if perm is None else list(perm)


def shuffles():
    return _state["shuffles"]


def install():
    np.random.shuffle = _shuffle
    np.random.seed(0)
    install_zero_empty()


def install_zero_empty():
    """Uninitialised memory is a source of nondeterminism (e.g. rows of the returned GJK simplex beyond n_points,
    which epa() then consumes). Python-level np.empty/np.empty_like hand out zero-filled arrays in the worker, so
    that one plan is one exactly repeatable execution. Compiled kernels are unaffected."""
    _zeros, _zeros_like = np.zeros, np.zeros_like

    def empty(shape, dtype=float, order="C", **kw):
        return _zeros(shape, dtype=dtype, order=order)

    def empty_like(a, dtype=None, order="K", subok=True, shape=None, **kw):
        return _zeros_like(a, dtype=dtype, order=order, subok=subok, shape=shape)

    np.empty = empty
    np.empty_like = empty_like
