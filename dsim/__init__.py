"""Deterministic simulation with fault injection for distance3d (see /verif/DESIGN.md)."""
