"""Parent-side geometry written from the *definitions* of the shapes (not from distance3d/geometry.py):
closed-form support values, distance-to-set upper bounds, uniqueness of the maximiser, scene scale L.

Collider spec (JSON): {"kind": ..., size parameters..., optional "margin": m}; pose = 4x4 (row lists).
Conventions (from the constructors' docstrings): capsule/cylinder/box/ellipsoid centred at the pose origin with the
axis along local z; cone: base disk centred at the pose origin in the local xy-plane, apex at +height*z; disk: centre =
pose translation, normal = local z; ellipse: axes = local x and y; hull: vertices given in world coordinates (its pose
is the identity and cannot be changed); mesh: local vertices + pose.
"""
import math

import numpy as np


def npose(pose):
    return np.asarray(pose, dtype=float).reshape(4, 4)


def world_vertices(spec, pose):
    T = npose(pose)
    V = np.asarray(spec["vertices"], dtype=float).reshape(-1, 3)
    if spec["kind"] == "hull":
        return V
    return V @ T[:3, :3].T + T[:3, 3]


def box_vertices(spec, pose):
    T = npose(pose)
    s = np.asarray(spec["size"], dtype=float) * 0.5
    corners = np.array([[sx, sy, sz] for sx in (-1, 1) for sy in (-1, 1) for sz in (-1, 1)], dtype=float) * s
    return corners @ T[:3, :3].T + T[:3, 3]


def feature_scale(spec):
    k = spec["kind"]
    if k == "sphere":
        f = 2 * spec["radius"]
    elif k == "ellipsoid":
        f = 2 * max(spec["radii"])
    elif k == "capsule":
        f = spec["height"] + 2 * spec["radius"]
    elif k == "cylinder":
        f = max(spec["length"], 2 * spec["radius"])
    elif k == "cone":
        f = max(spec["height"], 2 * spec["radius"])
    elif k == "box":
        f = float(np.linalg.norm(spec["size"]))
    elif k == "disk":
        f = 2 * spec["radius"]
    elif k == "ellipse":
        f = 2 * max(spec["radii"])
    else:
        V = np.asarray(spec["vertices"], dtype=float).reshape(-1, 3)
        f = float(np.max(np.linalg.norm(V - V.mean(axis=0), axis=1))) * 2 if len(V) else 0.0
    return f + 2 * spec.get("margin", 0.0)


def position(spec, pose):
    if spec["kind"] == "hull":
        V = np.asarray(spec["vertices"], dtype=float).reshape(-1, 3)
        return V.mean(axis=0)
    return npose(pose)[:3, 3]


def scale_L(items):
    """L = max(1, largest feature size, centre distances / distance from the origin) over (spec, pose) items."""
    L = 1.0
    ps = []
    for spec, pose in items:
        L = max(L, feature_scale(spec))
        p = position(spec, pose)
        ps.append(p)
        L = max(L, float(np.linalg.norm(p)))
    for i in range(len(ps)):
        for j in range(i):
            L = max(L, float(np.linalg.norm(ps[i] - ps[j])))
    return L


def support_value(spec, pose, dhat):
    """h(d) = max over the point set of x.d for a unit direction d (closed forms from the definitions)."""
    T = npose(pose)
    R, c = T[:3, :3], T[:3, 3]
    d = np.asarray(dhat, dtype=float)
    k = spec["kind"]
    m = spec.get("margin", 0.0)
    ld = R.T @ d
    if k == "sphere":
        h = c @ d + spec["radius"]
    elif k == "ellipsoid":
        h = c @ d + float(np.linalg.norm(np.asarray(spec["radii"]) * ld))
    elif k == "capsule":
        h = c @ d + 0.5 * spec["height"] * abs(ld[2]) + spec["radius"]
    elif k == "cylinder":
        h = c @ d + 0.5 * spec["length"] * abs(ld[2]) + spec["radius"] * math.hypot(ld[0], ld[1])
    elif k == "cone":
        h = c @ d + max(spec["height"] * ld[2], spec["radius"] * math.hypot(ld[0], ld[1]))
    elif k == "box":
        h = c @ d + float(np.sum(0.5 * np.asarray(spec["size"]) * np.abs(ld)))
    elif k == "disk":
        h = c @ d + spec["radius"] * math.hypot(ld[0], ld[1])
    elif k == "ellipse":
        r = spec["radii"]
        h = c @ d + math.hypot(r[0] * ld[0], r[1] * ld[1])
    elif k in ("mesh", "hull"):
        h = float(np.max(world_vertices(spec, pose) @ d))
    else:
        raise ValueError(k)
    return float(h + m)


def unique_gap(spec, pose, dhat):
    """A measure of how clearly the maximiser along d is unique (0 = tie / flat feature)."""
    T = npose(pose)
    R = T[:3, :3]
    d = np.asarray(dhat, dtype=float)
    ld = R.T @ d
    k = spec["kind"]
    rad = math.hypot(ld[0], ld[1])
    if k in ("sphere", "ellipsoid"):
        return 1.0
    if k == "capsule":
        return abs(ld[2])
    if k == "cylinder":
        return min(abs(ld[2]), rad)
    if k == "cone":
        return min(rad, abs(spec["height"] * ld[2] - spec["radius"] * rad) / max(spec["height"], spec["radius"]))
    if k == "disk":
        return rad
    if k == "ellipse":
        return rad
    if k == "box":
        pr = np.sort(box_vertices(spec, pose) @ d)
        return float(pr[-1] - pr[-2]) / max(1e-300, float(np.max(spec["size"])))
    V = world_vertices(spec, pose)
    if len(V) < 2:
        return 1.0
    pr = np.sort(V @ d)
    return float(pr[-1] - pr[-2]) / max(1e-300, feature_scale(spec))


def _seg_dist(p, a, b):
    ab = b - a
    den = float(ab @ ab)
    t = 0.0 if den == 0.0 else min(1.0, max(0.0, float((p - a) @ ab) / den))
    return float(np.linalg.norm(p - (a + t * ab)))


def _poly2_dist(pt, poly):
    """Distance from a 2-D point to a convex polygon (ccw vertex list), 0 inside."""
    inside = True
    best = float("inf")
    n = len(poly)
    for i in range(n):
        a, b = poly[i], poly[(i + 1) % n]
        e = b - a
        cr = e[0] * (pt[1] - a[1]) - e[1] * (pt[0] - a[0])
        if cr < 0:
            inside = False
        best = min(best, _seg_dist(np.append(pt, 0.0), np.append(a, 0.0), np.append(b, 0.0)))
    return 0.0 if inside else best



# ---- exact point-to-ellipse / point-to-ellipsoid distance (Eberly's robust bisection; written from the paper) -------
def _get_root(r, z, g):
    n = len(r)
    s0 = z[n - 1] - 1.0
    s1 = 0.0 if g < 0 else math.sqrt(sum((r[i] * z[i]) ** 2 for i in range(n))) - 1.0
    s = 0.0
    for _ in range(200):
        s = 0.5 * (s0 + s1)
        if s == s0 or s == s1:
            break
        gg = sum((r[i] * z[i] / (s + r[i])) ** 2 for i in range(n)) - 1.0
        if gg > 0:
            s0 = s
        elif gg < 0:
            s1 = s
        else:
            break
    return s


def _dist_ellipse_sorted(e, y):
    """e0 >= e1 > 0, y >= 0: distance from y to the ellipse curve (x0/e0)^2 + (x1/e1)^2 = 1."""
    e0, e1 = e
    y0, y1 = y
    if y1 > 0:
        if y0 > 0:
            z = (y0 / e0, y1 / e1)
            g = z[0] ** 2 + z[1] ** 2 - 1.0
            if g != 0:
                r = ((e0 / e1) ** 2, 1.0)
                sbar = _get_root(r, z, g)
                x0 = r[0] * y0 / (sbar + r[0])
                x1 = r[1] * y1 / (sbar + r[1])
                return math.hypot(x0 - y0, x1 - y1)
            return 0.0
        return abs(y1 - e1)
    numer0 = e0 * y0
    denom0 = e0 * e0 - e1 * e1
    if numer0 < denom0:
        xde0 = numer0 / denom0
        x0 = e0 * xde0
        x1 = e1 * math.sqrt(max(0.0, 1.0 - xde0 * xde0))
        return math.hypot(x0 - y0, x1)
    return abs(y0 - e0)


def _dist_ellipsoid_sorted(e, y):
    e0, e1, e2 = e
    y0, y1, y2 = y
    if y2 > 0:
        if y1 > 0:
            if y0 > 0:
                z = (y0 / e0, y1 / e1, y2 / e2)
                g = z[0] ** 2 + z[1] ** 2 + z[2] ** 2 - 1.0
                if g != 0:
                    r = ((e0 / e2) ** 2, (e1 / e2) ** 2, 1.0)
                    sbar = _get_root(r, z, g)
                    x = [r[i] * y[i] / (sbar + r[i]) for i in range(3)]
                    return math.sqrt(sum((x[i] - y[i]) ** 2 for i in range(3)))
                return 0.0
            return _dist_ellipse_sorted((e1, e2), (y1, y2))
        if y0 > 0:
            return _dist_ellipse_sorted((e0, e2), (y0, y2))
        return abs(y2 - e2)
    denom0 = e0 * e0 - e2 * e2
    denom1 = e1 * e1 - e2 * e2
    numer0 = e0 * y0
    numer1 = e1 * y1
    if numer0 < denom0 and numer1 < denom1:
        xde0 = numer0 / denom0
        xde1 = numer1 / denom1
        discr = 1.0 - xde0 * xde0 - xde1 * xde1
        if discr > 0:
            x0, x1, x2 = e0 * xde0, e1 * xde1, e2 * math.sqrt(discr)
            return math.sqrt((x0 - y0) ** 2 + (x1 - y1) ** 2 + x2 * x2)
    return _dist_ellipse_sorted((e0, e1), (y0, y1))


def dist_solid_ellipsoid(radii, q):
    """Distance from q (local coordinates) to the solid ellipsoid / ellipse (len(radii) = 3 / 2); 0 inside."""
    r = [float(v) for v in radii]
    y = [abs(float(v)) for v in q[:len(r)]]
    if sum((y[i] / r[i]) ** 2 for i in range(len(r))) <= 1.0:
        return 0.0
    order = sorted(range(len(r)), key=lambda i: -r[i])
    e = tuple(r[i] for i in order)
    ys = tuple(y[i] for i in order)
    return _dist_ellipsoid_sorted(e, ys) if len(r) == 3 else _dist_ellipse_sorted(e, ys)


class HullMember:
    """Distance-like membership measure for the convex hull of a vertex set of any affine rank."""

    def __init__(self, V):
        V = np.asarray(V, dtype=float).reshape(-1, 3)
        self.V = V
        self.c = V.mean(axis=0)
        X = V - self.c
        scale = max(1e-300, float(np.max(np.abs(X))) if len(X) else 0.0)
        u, s, vt = np.linalg.svd(X, full_matrices=False) if len(V) > 1 else (None, np.zeros(0), np.zeros((0, 3)))
        self.rank = int(np.sum(s > 1e-9 * max(scale, 1e-300) * math.sqrt(max(len(V), 1)))) if len(V) > 1 else 0
        self.basis = vt[:self.rank]
        self.eq = None
        if self.rank == 3:
            from scipy.spatial import ConvexHull
            self.eq = ConvexHull(V).equations
        elif self.rank == 2:
            from scipy.spatial import ConvexHull
            P = X @ self.basis.T
            hull = ConvexHull(P)
            self.poly = P[hull.vertices]
        elif self.rank == 1:
            t = X @ self.basis[0]
            self.lo, self.hi = float(t.min()), float(t.max())

    def dist(self, p):
        """Upper bound on the distance of p to the hull for points outside; <= 0 means inside (full rank)."""
        p = np.asarray(p, dtype=float)
        if self.rank == 3:
            return float(np.max(self.eq[:, :3] @ p + self.eq[:, 3]))
        x = p - self.c
        if self.rank == 0:
            return float(np.linalg.norm(x))
        q = self.basis @ x
        resid = float(np.linalg.norm(x - self.basis.T @ q))
        if self.rank == 1:
            inp = max(0.0, self.lo - q[0], q[0] - self.hi)
        else:
            inp = _poly2_dist(q, self.poly)
        return math.hypot(resid, inp)


_member_cache = {}


def set_distance(spec, pose, p):
    """Upper bound on the distance from p to the collider's point set (0 if inside). Exact for the primitives,
    conservative (radial) for ellipsoid/ellipse, facet-based for hulls."""
    T = npose(pose)
    R, c = T[:3, :3], T[:3, 3]
    p = np.asarray(p, dtype=float)
    k = spec["kind"]
    m = spec.get("margin", 0.0)
    q = R.T @ (p - c)
    if k == "sphere":
        dist = max(0.0, float(np.linalg.norm(p - c)) - spec["radius"])
    elif k == "ellipsoid":
        dist = dist_solid_ellipsoid(spec["radii"], q)
    elif k == "capsule":
        h = 0.5 * spec["height"]
        dist = max(0.0, _seg_dist(q, np.array([0, 0, -h]), np.array([0, 0, h])) - spec["radius"])
    elif k == "cylinder":
        dz = max(0.0, abs(q[2]) - 0.5 * spec["length"])
        dr = max(0.0, math.hypot(q[0], q[1]) - spec["radius"])
        dist = math.hypot(dz, dr)
    elif k == "cone":
        rho = math.hypot(q[0], q[1])
        tri = [np.array([-spec["radius"], 0.0]), np.array([spec["radius"], 0.0]), np.array([0.0, spec["height"]])]
        dist = _poly2_dist(np.array([rho, q[2]]), tri)
    elif k == "box":
        e = np.maximum(0.0, np.abs(q) - 0.5 * np.asarray(spec["size"], dtype=float))
        dist = float(np.linalg.norm(e))
    elif k == "disk":
        dist = math.hypot(abs(q[2]), max(0.0, math.hypot(q[0], q[1]) - spec["radius"]))
    elif k == "ellipse":
        dist = math.hypot(abs(q[2]), dist_solid_ellipsoid(spec["radii"], q[:2]))
    elif k in ("mesh", "hull"):
        V = world_vertices(spec, pose)
        near = float(np.min(np.linalg.norm(V - p, axis=1)))
        if near <= m:
            return 0.0
        key = hash(V.tobytes())
        hm = _member_cache.get(key)
        if hm is None:
            if len(_member_cache) > 64:
                _member_cache.clear()
            hm = _member_cache[key] = HullMember(V)
        dist = min(near, max(0.0, hm.dist(p)))
    else:
        raise ValueError(k)
    return max(0.0, dist - m)


def aabb_overlap(a, b):
    return all(a[i][0] <= b[i][1] and a[i][1] >= b[i][0] for i in range(3))
