"""Self-tests of the machinery itself.

selftest-determinism : the same (VERIF_SEED, property, run index) must give bit-identical plans and journals when run
                       twice, with another worker count, and under another PYTHONHASHSEED in fresh interpreters.
selftest-sensitivity : realistic single-site breaks applied to a scratch copy of the library (outside /repo and
                       /verif, removed afterwards together with its numba cache) must make the owning check report
                       a violation within its quick budget.
Results: /verif/evidence/selftest-*.json (own format; not a property evidence file).
"""
import json
import os
import shutil
import subprocess
import sys
import tempfile
import time

from . import boot
from .props import PROPS

VERIF = boot.VERIF_ROOT


def _run_check(prop, extra_env, args, timeout):
    env = dict(os.environ)
    env.update(extra_env)
    t0 = time.time()
    p = subprocess.run([os.path.join(VERIF, "check"), prop] + args, env=env, cwd=VERIF, capture_output=True, text=True,
                       timeout=timeout)
    return p.returncode, p.stdout + p.stderr, time.time() - t0


def determinism(tier, base_seed, only=None):
    n = {"quick": 120, "thorough": 1500}[tier]
    scratch = tempfile.mkdtemp(prefix="dsim-det-")
    configs = [("A", {"DSIM_LANES": "16", "DSIM_HASHSEED": "0"}),
               ("B", {"DSIM_LANES": "5", "DSIM_HASHSEED": "4242"}),
               ("C", {"DSIM_LANES": "16", "DSIM_HASHSEED": "0"})]
    report = {"runs_per_property": n, "configs": {k: v for k, v in configs}, "properties": {}}
    ok = True
    try:
        for prop in sorted(PROPS):
            if only is not None and prop not in only:
                continue
            digs = {}
            for name, env in configs:
                out = os.path.join(scratch, "%s-%s.json" % (prop, name))
                e = dict(env, DSIM_EVIDENCE_DIR=os.path.join(scratch, "ev"), DSIM_REPLAY_DIR=os.path.join(scratch, "rp"),
                         VERIF_SEED=str(base_seed), PYTHONHASHSEED=env["DSIM_HASHSEED"])
                nn = n if prop not in ("C06", "C16", "C20") else max(40, n // 4)
                rc, txt, dt = _run_check(prop, e, ["--max-runs", str(nn), "--wall", "3000", "--digest-out", out], 3600)
                if rc != 0 or not os.path.exists(out):
                    print("selftest-determinism: %s config %s exited %s\n%s" % (prop, name, rc, txt[-1500:]))
                    ok = False
                    continue
                with open(out) as f:
                    digs[name] = json.load(f)
            names = sorted(digs)
            diff = []
            if len(names) == len(configs):
                keys = set(digs[names[0]])
                for nm in names[1:]:
                    keys &= set(digs[nm])
                for k in sorted(keys, key=int):
                    vals = {digs[nm][k] for nm in names}
                    if len(vals) != 1:
                        diff.append(int(k))
                report["properties"][prop] = {"runs_compared": len(keys), "diverging_run_indices": diff[:20]}
                if diff or not keys:
                    ok = False
                print("selftest-determinism: %s %d runs x %d configurations, %d diverging" % (prop, len(keys), len(names), len(diff)), flush=True)
    finally:
        shutil.rmtree(scratch, ignore_errors=True)
    report["ok"] = ok
    os.makedirs(os.path.join(VERIF, "evidence"), exist_ok=True)
    name = "selftest-determinism.json" if only is None else "selftest-determinism-%s.json" % "-".join(sorted(only))
    with open(os.path.join(VERIF, "evidence", name), "w") as f:
        json.dump(report, f, indent=1)
    return 0 if ok else 1


# (id, owning property, file, old text, new text, what it is)
MUTATIONS = [
    ("m01-aabb-overlap-strict", "C05", "distance3d/aabb_tree.py", "aabb1[0, 0] <= aabb2[0, 1]", "aabb1[0, 0] < aabb2[0, 1]",
     "closed-interval overlap test made strict on one face"),
    ("m02-no-upward-refit", "C05", "distance3d/aabb_tree.py",
     "        # Moving on parent up\n        tree_node_index = tree_node[PARENT_INDEX]",
     "        # Moving on parent up\n        tree_node_index = INDEX_NONE",
     "ancestors' boxes are refitted for the direct parent only"),
    ("m03-box-pose-keeps-vertices", "C14", "distance3d/colliders.py",
     "        self.box2origin = pose\n        self.vertices = convert_box_to_vertices(pose, self.size)",
     "        self.box2origin = pose", "Box.update_pose does not refresh the cached vertices"),
    ("m04-margin-pose-not-forwarded", "C14", "distance3d/colliders.py",
     "    def update_pose(self, pose):\n        self.collider.update_pose(pose)",
     "    def update_pose(self, pose):\n        pass", "Margin.update_pose does not forward to the wrapped collider"),
    ("m05-mesh-functor-keeps-pose", "C14", "distance3d/colliders.py",
     "        self.mesh2origin = mesh2origin\n        self._support_function.update_pose(mesh2origin)",
     "        self.mesh2origin = mesh2origin", "MeshGraph.update_pose does not update its support functor"),
    ("m06-hill-climb-single-sweep", "C03", "distance3d/mesh.py",
     "                best_projection = projection\n                converged = False",
     "                best_projection = projection", "mesh hill climbing makes a single sweep over the neighbours"),
    ("m07-express-in-keeps-aabbs", "C16", "distance3d/hydroelastic_contact/_rigid_body.py",
     "        self._com = None\n        self._aabbs = None\n        self._aabb_tree = None",
     "        self._com = None\n        self._aabb_tree = None", "express_in does not invalidate the cached tetrahedron AABBs"),
    ("m08-update-keeps-tree", "C06", "distance3d/broad_phase.py",
     "        self.aabbtree_ = AabbTree()\n        for frame in self.colliders_:",
     "        for frame in self.colliders_:", "update_collider_poses inserts into the old tree instead of rebuilding it"),
    ("m09-detect-ignores-whitelist", "C06", "distance3d/self_collision.py",
     "        candidates = bvh.aabb_overlapping_colliders(\n            collider, whitelist=bvh.self_collision_whitelists_[frame])\n\n        contacts[frame] = False",
     "        candidates = bvh.aabb_overlapping_colliders(\n            collider, whitelist=(frame,))\n\n        contacts[frame] = False",
     "detect() ignores the whitelists (except the frame itself)"),
    ("m10-jolt-no-progress-exit", "C19", "distance3d/gjk/_gjk_jolt.py",
     "    if prev_v_len_sq - v_len_sq <= EPSILON * prev_v_len_sq:\n        # search_direction is a separating axis\n        return GjkState.NoIntersection, n_points, prev_v_len_sq, v_len_sq\n\n    prev_v_len_sq = v_len_sq\n    return GjkState.Unknown, n_points, prev_v_len_sq, v_len_sq",
     "    prev_v_len_sq = v_len_sq\n    return GjkState.Unknown, n_points, prev_v_len_sq, v_len_sq",
     "jolt distance loop loses its relative-progress exit (separated pairs never converge)"),
    ("m11-query-result-dtype", "C20", "distance3d/aabb_tree.py", '    return np.array(overlaps, dtype=np.dtype("int"))',
     "    return np.array(overlaps)", "empty box-query result is float64 without JIT, int64 compiled"),
    ("m11b-tree-query-result-dtype", "C20", "distance3d/aabb_tree.py",
     '    return (np.array(broad_tetrahedra1, dtype=np.dtype("int")),\n            np.array(broad_tetrahedra2, dtype=np.dtype("int")), broad_pairs)',
     "    return np.array(broad_tetrahedra1), np.array(broad_tetrahedra2), broad_pairs",
     "empty tree-tree query result is float64 without JIT (reverts a repaired defect)"),
    ("m12-wrench-unrotated", "C16", "distance3d/hydroelastic_contact/_forces.py",
     "wrench21_in_world = np.hstack((R.dot(total_force_21), R.dot(total_torque_21)))",
     "wrench21_in_world = np.hstack((total_force_21, R.dot(total_torque_21)))",
     "force of body 2 on body 1 is left in the frame of body 2"),
    ("m13-sphere-pose-typo", "C14", "distance3d/colliders.py", "        self.c = pose[:3, 3]\n        if self.artist_ is not None:\n            self.artist_.set_data(pose)\n\n    def aabb(self):\n        return np.array(sphere_aabb",
     "        self.c = pose[:3, 2]\n        if self.artist_ is not None:\n            self.artist_.set_data(pose)\n\n    def aabb(self):\n        return np.array(sphere_aabb",
     "Sphere.update_pose takes the wrong column of the pose"),
]


def sensitivity(tier, base_seed, only=None):
    report = {"mutations": []}
    ok = True
    muts = [m for m in MUTATIONS if only is None or m[0] in only or m[1] in only]
    if tier == "quick" and only is None:
        muts = [m for m in muts if m[0] in ("m01-aabb-overlap-strict", "m03-box-pose-keeps-vertices", "m07-express-in-keeps-aabbs")]
    for mid, prop, rel, old, new, what in muts:
        scratch = tempfile.mkdtemp(prefix="dsim-sens-")
        try:
            shutil.copytree(os.path.join(boot.repo_root(), "distance3d"), os.path.join(scratch, "distance3d"),
                            ignore=shutil.ignore_patterns("__pycache__", "test"))
            path = os.path.join(scratch, rel)
            src = open(path).read()
            if src.count(old) != 1:
                print("selftest-sensitivity: %s does not apply (pattern occurs %d times)" % (mid, src.count(old)))
                report["mutations"].append({"id": mid, "property": prop, "applied": False})
                ok = False
                continue
            open(path, "w").write(src.replace(old, new))
            env = {"DSIM_REPO": scratch, "DSIM_CACHE_ROOT": os.path.join(scratch, ".nbcache"),
                   "DSIM_EVIDENCE_DIR": os.path.join(scratch, "ev"), "DSIM_REPLAY_DIR": os.path.join(scratch, "rp"),
                   "VERIF_SEED": str(base_seed)}
            rc, txt, dt = _run_check(prop, env, ["--tier", "quick"], 3600)
            caught = rc == 1 and "VIOLATION property=%s" % prop in txt
            line = next((l for l in txt.splitlines() if l.strip().startswith("oracle=")), "")
            report["mutations"].append({"id": mid, "property": prop, "what": what, "applied": True, "caught": caught,
                                        "exit": rc, "seconds": round(dt, 1), "first_violation": line.strip()[:300]})
            print("selftest-sensitivity: %s (%s) %s in %.0fs %s" % (mid, prop, "CAUGHT" if caught else "MISSED (exit %s)" % rc,
                                                                     dt, line.strip()[:160]), flush=True)
            if not caught:
                ok = False
                print(txt[-800:])
        finally:
            shutil.rmtree(scratch, ignore_errors=True)
    report["ok"] = ok
    os.makedirs(os.path.join(VERIF, "evidence"), exist_ok=True)
    name = "selftest-sensitivity.json" if (only is None and tier == "thorough") else "selftest-sensitivity-partial.json"
    with open(os.path.join(VERIF, "evidence", name), "w") as f:
        json.dump(report, f, indent=1)
    return 0 if ok else 1


def main(what, tier, base_seed):
    only = os.environ.get("DSIM_ONLY")
    only = set(only.split(",")) if only else None
    if what == "selftest-determinism":
        return determinism(tier, base_seed, only)
    if what == "selftest-sensitivity":
        return sensitivity(tier, base_seed, only)
    print("unknown selftest %r" % what)
    return 2
